#!/usr/bin/env python3
"""Prints the markdown table of seeded breaking changes (DESIGN.md 12.6) from seeded/*/meta.json and ran.txt."""
import json, os, re, glob
NOTES = {
 "C10-m2": "missed at first: a valid add-on that was dropped was only counted; the quantifier says accepted *iff* the parity matches, so it is now a violation (and EAN-5 is swept over all 100000 values)",
 "C11-m1": "missed at first: every symbol got a fresh Decoder; instance-reuse histories (sibling family with the same layer count first) added",
 "C18-m2": "missed at first: no add-on symbols in the workload; `eanext`, `qrdmg`, `dmdmg`, `aztecgen` operations added",
 "C18-m3": "first run: harness hang (state walker exponential on back-pointers inside a map) -> walker made path-based; then caught",
 "w2-C04-m1": "first run: exit 2 (unbounded ddmin on a 1400-error trace ran into the 30-min harness watchdog) -> minimisation budgets; then caught",
 "w2-C04-m2": "missed at first: parity area was always zero before Encode; it is now pre-filled with junk (a re-used buffer)",
 "w2-C05-m1": "an interleaving mutant (first concurrent decode of a version); not C05's quantifier - evaluated under C18",
 "w2-C10-m2": "missed at first: Code 93 symbols had <= 14 data characters; lengths up to 70 added (beyond two cycles of the weights)",
 "w2-C16-m3": "missed at first: SetRow was only given rows of exactly the matrix width; wider rows added - which exposed a genuine defect on the unchanged tree (501ff9e); patch ported onto the fixed tree",
 "w2-C17-m1": "missed at first: no image whose stride differs from its width; SubImages of larger Gray/RGBA images added",
 "w2-C17b-m2": "missed at first: only bilevel rows were checked against the row method; the sharpened-threshold model now covers grey rows",
 "w2-C18-m1": "first run: exit 2 (fresh-process replay needs several attempts when the library itself uses sync.Pool); replay attempts added",
 "w2-C18b-m1": "first run: exit 2 (not reproducible in one attempt: sync.Pool); per-task solo processes in sync-aware mode + replay attempts; then caught by oracle (b)",
 "w2-C18b-m2": "missed at first: no yield point between two adjacent atomic operations; statement-level yields, 'sync'-kind sites around sync/atomic calls and a bias of site-targeted runs toward them added; then caught by oracle (b) with no race report",
}
NOTES.update({
 "w3-C10-m1": "NOT caught: it only raises the rate of a misread class (EAN-13 read as UPC-E by the multi-format reader) that the unchanged tree already exhibits and that is a listed known finding; a rate threshold would be a fragile oracle",
 "w3-C10-m2": "missed at first (image-path misreads were counted as probes); misreads are now class-keyed findings, EAN-8 is not a known class: caught",
 "w3-C10-m3": "a concurrency mutant (shared add-on decoder): not C10's quantifier - evaluated under C18",
 "w3-C11-m1": "NOT caught, and not a violation of a listed property: it needs two goroutines calling Decode on the SAME AztecReader; C18 is about private instances and C11's sequential use is unaffected",
 "w3-C16-m3": "missed at first: all set/unset string pairs had equal lengths; unequal pairs added",
 "w3-C17-m2": "missed at first: no large solid regions in the bilevel images; images with big rectangles touching the edges (and all-black / all-white) added",
 "w3-C18-m2": "missed at first: only registry spellings of charset names were used; non-registered spellings added to the QR and ECI operations",
})
NOTES.update({
 "w4-C04-m2": "first run: exit 2 - the failure depends on which field the same process encoded in before, so the single-run trace did not reproduce; the runner now falls back to replaying the worker's shard prefix (a pure function of seed and code); then caught",
 "w4-C10-m1": "missed at first: Code 128 writer inputs had no control characters between lower-case letters; added",
 "w4-C17-m2": "missed at first: rows were only read from the parent bitmap; rows of cropped bitmaps (whose binariser is created from the parent's) are now checked against the row model",
 "w4-C18-m1": "missed at first: UTF-16BE was one of many character sets, two tasks rarely used it together; `qreci` operation and runs in which every task uses the same selector (character set, field, image) added",
 "w4-C18-m2": "missed at first: the three special 5-digit add-on values were practically never drawn; the price-table values are now over-sampled (oracle (c) then sees the shared table change after a single decode)",
})
NOTES.update({
 "w4-C11-m1": "missed at first: texts were never dominated by two-character punctuation codes and the reference encoder rarely latched to Punct; pair-only texts and an 'efficient' encoding style (no optional detours, eager Punct latch) added",
 "w4-C11-m2": "missed at first: poses always had a quiet zone, and location failures of compact symbols at 2 px/module were one known class; poses without quiet zone added and keyed separately (0 failures in 24 000 such poses on the unchanged tree), so the change is reported",
 "w4-C11-m3": "missed at first: damaged codewords were random XORs; 'blot' plans (exactly t data codewords reading all zeros / all ones) added",
 "w5-C16-m2": "NOT caught: it needs a row whose bits beyond its own size were set with SetBulk; the check passes SetBulk only bits below the array size (stated assumption: positions at or beyond the size are not part of the container), under which the change is equivalent",
 "w5-C18-m1": "first run: exit 2 (driver sources were looked up under an overridden VERIF_DIR; fixed); then missed: no Macro 05/06 Data Matrix messages in the workload; added; caught by oracle (b), no race report",
 "w5-C18-m2": "missed at first: no low-contrast images in the workload; `faint` operation added; caught by oracle (b) deterministically (the solo reference runs in its own process), no race report",
 "w5-C18-m3": "NOT decided: the change starts goroutines inside the library; schedsim cannot schedule library-internal goroutines and says so: exit 2 'unsupported construct' (DESIGN 4.4), never a VIOLATION and never a pass",
})
NOTES.update({
 "w5-C11-m2": "missed at first: the reference encoder never used FLG(0); GS characters early in the message, encoded either through the Mixed table or as FLG(0), added",
 "w5-C11-m3": "missed until wave 13: the trigger is a previous symbol carrying an ECI on the same Decoder instance; a third of the instance-reuse histories now start with a symbol that announces another character set (FLG(n) + digits; unjudged itself, the property does not name ECIs), after which the conforming symbol must still decode exactly",
})
NOTES.update({
 "w13-C17-m2": "NOT decided: the statement does not fix the luminance of a semi-transparent pixel (the unchanged generic path applies alpha to already premultiplied colour; the change composites the straight colour of an *image.NRGBA over white, 123 instead of 120 for NRGBA{40,0,3,137}, arguably the more usual value); the check's model states luminance only for alpha 0 (white) and 255, where the change is exact, so it neither demands one formula nor that two Go image types agree to the last unit",
 "w13-C18-m1": "missed at first: the ALLOWED_EAN_EXTENSIONS list in the shared hints map was ascending, so sorting it in place wrote nothing; the list is now in a user's order (5, 0, 2); caught by the race oracle",
})
NOTES.update({
 "w14-C17-m1": "NOT decided: the statement does not fix how a 16-bit grey level is rounded to 8 bits (the unchanged generic path takes floor(Y*255/65535), the change takes Y>>8; they differ by at most 1 and both are usual); the check's 16-bit images carry the values v*257, on which every rounding agrees, so it does not demand one of them - same reason as w13-C17-m2",
})
NOTES.update({
 "w6-C16-m1": "NOT caught: it needs a ragged bool map whose later row is longer than the first; ragged input is outside 'in-range arguments' (the unchanged tree panics on a ragged map whose later row is shorter)",
 "w6-C17-m1": "missed at first: after a NotFound the matrix was not asked for again; added",
 "w6-C17-m2": "missed at first: BinaryBitmap.Crop was only given valid rectangles; same-size shifted, negative-origin and outside rectangles added",
 "w6-C17-m3": "missed at first (the change adds a fast path for an image type the workload never produced): gray YCbCr frames as SubImages with a non-zero origin added",
})
NOTES.update({
 "w6-C18-m2": "missed at first: images for the QR multi reader held one symbol, so no candidate was ever dropped; images with two or three symbols (one sometimes blotted) added; oracle (c) then sees the diagnostic variable change",
})
NOTES.update({
 "w7-C05-m1": "missed at first: every decode used a fresh decoder object; chains of damaged symbols of different shapes through one long-lived decoder pair added (reported with the minimised list of symbols decoded before)",
 "w7-C10-m1": "missed at first: Code 93 faults were single substitutions, which K always notices; damage with K recomputed over the damaged data + C (only C can notice) added",
 "w7-C10-m3": "missed at first: a writer output carrying other body digits than requested was counted as 'outside the check position' and skipped; a well-formed symbol of another number is now a failure (no check digit was computed for the requested number)",
 "w7-C11-m1": "first run: exit 2 (one of two failing classes depends on sync.Pool contents and did not reproduce; the other was confirmed by the shard-prefix replay but the unconfirmed one decided the exit code) -> a confirmed violation now decides; then caught",
 "w7-C16-m2": "NOT decided: needs SetBulk with an index that is not a multiple of 32, where the documented meaning (bits i..i+31) and the word store the unchanged code performs disagree; the check passes word-aligned indices only (stated assumption)",
 "w7-C17-m3": "missed at first (the trigger is a reader call, the observation point is BinaryBitmap.GetBlackMatrix): the binarise step now hands the bitmap to one to three readers with random hints and asks for the matrix again",
 "w7-C18-m3": "missed at first: readers were given PURE_BARCODE / TRY_HARDER only; task-private hint maps with CHARACTER_SET, ALSO_INVERTED, ASSUME_GS1 added to the QR, Data Matrix and Aztec read operations",
})
NOTES.update({
 "w8-C04-m2": "a schedule-only change (shared scratch on the package-level field object): not C04's to see; caught by C18 (race, state)",
 "w8-C04-m3": "missed at first: the field job always asked Exp first; 24 light jobs at the head of the job list make each accessor (Log, Exp, Inverse, Multiply) the first call on each field object in some worker process, and the replay (a fresh process) is by construction a first call",
 "w8-C10-m2": "missed at first: Code 39 with the optional modulo-43 check character (an anchored file, the statement's general clause) was not driven at all; reference Code 39 built from the symbology's structure, readers with the check flag in plain and extended mode, symbols of 0..12 data characters, every substitution. This exposed a crash of the unchanged extended-mode reader on valid text ending in a shift character (outside C10, counted)",
 "w8-C10-m3": "a schedule-only change (package-level scratch array in convertUPCEtoUPCA): caught by C18 (race, result differs from solo)",
 "w8-C11-m1": "missed at first: the reference sender kept the recommended three check words; symbols filled to the brim (one or two check words, MinCheck in the trace) added",
 "w8-C11-m3": "missed at first: binary runs were at most 112 bytes; single long-form shifts of several hundred bytes added (text generator and the encoder's on-purpose long form)",
 "w8-C17-m3": "missed at first: RGB ints all carried 0xFF in the top byte; top bytes 0x00, random, mixed and sign-extended added (they carry no colour)",
 "w8-C18-m1": "first run: exit 2 - the race was reported with both stacks entirely in the root package, which the report parser did not count as library frames (only sub-packages matched the prefix); fixed. The `parentcrop` operation (tasks derive their own crops / rotations from bitmaps built before the tasks start) was added for this change",
})
NOTES.update({
 "w9-C05-m1": "missed at first, and the miss was the check's own laxness: an undamaged symbol the decoder rejects with a non-checksum error was skipped as 'outside the error-control layer'. 'Up to floor(ec/2)' includes none, so control failures (error, panic, other text) of library-made and reference-made symbols are violations now (0 such skips in 81 000 controls of an earlier thorough run)",
 "w9-C10-m1": "missed at first: hints were constant per job; history-only calls with ASSUME_CODE_39_CHECK_DIGIT (false / true) are interleaved on the re-used Code 39 readers; their own outcome is not judged (an honest reader may obey the hint for that call)",
 "w9-C10-m2": "missed at first: parity patterns were only used to parse writer output; `parity` jobs draw EAN-13 and UPC-E symbols with all 64 left-half parity patterns (patterns that encode no digit must not be read as any number; patterns that do are accepted iff the number verifies)",
 "w9-C10-m3": "missed at first: the text of a Result was read once; the last Result of every reader instance is now held with a private copy of its text and compared after every later call on that instance (`reader/result-changes-later`)",
 "w9-C11-m1": "missed at first: no mirror images in the histories; a third of the prime symbols on the reader path are shown as mirror images (history only: reading them is offered, not demanded)",
 "w9-C16-m1": "NOT decided: needs stray bits beyond the size left by SetBulk (stated assumption: SetBulk is given zero there), like w5-C16-m2",
 "w9-C17-m1": "caught at first only because the check demanded that non-Go-image sources refuse to rotate - which a correct extension would have tripped as well; the rotate step now accepts rotation from any source kind and compares it with the model's quarter turn (still caught: rotate/state:pixels)",
 "w9-C17-m2": "missed at first: negatives were only taken with Invert(); NewInvertedLuminanceSource and LuminanceSourceInvert added",
 "w9-C18-m3": "missed at first: ITF contents were 6..14 digits, never longer than the largest default length; lengths up to 42 added",
})
NOTES.update({
 "w10-C05-m1": "the change starts goroutines inside the library; C05 is single-threaded and still sees the effect (blocks left uncorrected)",
 "w10-C05-m2": "a schedule-only change (lazy unsynchronised field tables): caught by C18 (state)",
 "w10-C10-m1": "NOT decided: needs ONE reader object shared by several goroutines, which neither C10 (no schedule) nor C18 (own instances per goroutine) quantifies over; like w3-C11-m1",
 "w10-C11-m2": "the change is in the Reed-Solomon decoder: missed by C11 (random damage never has this form) and by C04 at first; C04 now also sends adversarial error sets whose magnitudes make a chosen subset of the syndromes vanish (first / last / every second / random), solved over the reference field. Caught by C04 (dec/miscorrect)",
 "w10-C17-m1": "missed at first: indexed images had opaque palettes; a palette whose entry for white is fully transparent (any colour underneath) added",
 "w10-C18-m3": "missed at first: every call got a fresh hints map; one application-wide read-only hints map (TRY_HARDER, result-point callback, allowed extensions) shared by the 1-D operations, with upside-down pictures so that the reversed-row attempt is taken",
})
NOTES.update({
 "w11-C05-m3": "NOT decided: needs ONE decoder object shared by several goroutines (neither C05 nor C18 quantifies over that); like w10-C10-m1",
 "w11-C10-m3": "missed at first: every writer-side trace used a fresh writer; writers are now kept per job like readers and their traces make (and may need) history",
 "w11-C11-m2": "missed at first: the mode message was never damaged; on the reader path its own GF(16) code is now loaded with up to two (compact) / three (full range) damaged 4-bit words, with or without codeword damage",
 "w11-C11-m3": "missed at first: the text of a result was read once; the last result of every Decoder / AztecReader instance is held with a private copy of its text and compared after the next decode on that instance (same for the long-lived decoders of C05)",
 "w11-C18-m1": "missed at first: every task built its multi-format reader from no hints; half of them now build it from the application-wide hints map, whose format list starts with other families' formats and ends with a duplicate",
})
NOTES.update({
 "w12-C11-m2": "missed at first: the longest binary run was 1100 bytes; the two largest sizes now get a short prefix and one binary-shift run of 1890..2078 bytes (the long form's limit)",
 "w12-C17-m2": "missed at first: rows were fetched into one re-used array; a row obtained with a nil array is now kept with a private copy and compared after later row fetches (`row-changes-later`). The first version of this bookkeeping forgot that the harness itself hands the kept array back in on the next call (the library may then overwrite it): it alarmed on the unchanged tree in the first trial run and was corrected before it was committed",
})
rows=[]
for d in sorted(glob.glob('/verif/seeded/*/')):
    name=os.path.basename(d.rstrip('/'))
    try: m=json.load(open(d+'meta.json'))
    except Exception: m={}
    ran=open(d+'ran.txt').read() if os.path.exists(d+'ran.txt') else ''
    ex=re.findall(r'check (C\d+) (\w+) exit=(\d)',ran)
    classes=sorted(set(re.findall(r'class=([^\s]+)',ran)))
    caught='**caught** ('+', '.join(classes[:3])+')' if ex and ex[-1][2]=='1' else ('not caught' if ex and ex[-1][2]=='0' else ('exit '+ex[-1][2] if ex else 'n/a'))
    title=(m.get('title') or '').replace('|','/')
    need=(m.get('needs_to_manifest') or '').replace('|','/').replace('\n',' ')
    if len(need)>160: need=need[:157]+'...'
    rows.append('| %s | %s | %s | %s | %s |'%(name,title,need,(ex[-1][0]+' '+ex[-1][1]+': ' if ex else '')+caught,NOTES.get(name,'')))
print('| id | change | needs to manifest | result | note |\n|---|---|---|---|---|')
print('\n'.join(rows))

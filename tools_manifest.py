#!/usr/bin/env python3
"""Regenerates MANIFEST.json from the table below and validates it (run with python3-vt for schema validation)."""
import json, sys

BASE = json.load(open('/root/.vp/BASELINE.json'))

NA = {
 "C01": "pure function of (text, options): no schedule, clock, fault or carried state in the quantifier; seeded input generation would be property-based testing, not simulation (DESIGN.md section 2)",
 "C02": "pure function of (text, hints); termination of a single-threaded loop is not a schedule or timer and a watchdog is not a simulated clock",
 "C03": "pure function of (content, size, margin); no fault in the quantifier",
 "C06": "totality over arbitrary inputs is input fuzzing: no fault the property promises to tolerate, the panic is not an injected crash, the time bound is not a clock the system reads",
 "C07": "conformance of tables and matrices to a reference construction: differential check of a pure function, no schedule/fault/history",
 "C08": "conformance of tables and matrices to a reference construction: differential check of a pure function, no schedule/fault/history",
 "C09": "padding, scaling, quarter turns and mirroring are deterministic poses of the input image, i.e. the input space of a pure function",
 "C12": "pure function of (content, format, size, hints); totality = fuzzing, see C06",
 "C13": "pure arithmetic on lengths and capacities",
 "C14": "pure integer arithmetic on sizes",
 "C15": "pure function of (text, charset); the registry is an init-time constant (its immutability under concurrent callers is decided under C18)",
 "C19": "pure floating-point geometry on arguments",
 "C20": "pure functions of (row, start, counters) and (counters, pattern, variance)",
}

CHECKS = {}
def chk(pid, engine, cat, text, note, technique, ref):
    CHECKS[pid] = {
        "property_id": pid,
        "quick_cmd": "./check %s quick" % pid,
        "thorough_cmd": "./check %s thorough" % pid,
        "evidence_file": "/verif/evidence/%s.json" % pid,
        "replay_cmd_template": "./check --replay {path}",
        "engine": engine,
        "level_claimed": {"category": cat, "text": text, "design_ref": ref},
        "level_note": note,
        "technique": technique,
    }

PENDING = {}

exec(open('/verif/manifest_table.py').read())

for p in PENDING:
    assert p not in CHECKS
na = [{"property_id": k, "reason": v} for k, v in sorted(NA.items())]
na += [{"property_id": k, "reason": v} for k, v in sorted(PENDING.items())]
ids = sorted(list(CHECKS) + [x["property_id"] for x in na])
assert ids == ["C%02d" % i for i in range(1, 21)], ids

m = {
 "version": 1,
 "setup_cmd": "./setup.sh",
 "hooks": {
   "guard": "verif",
   "enable": "no hook lives in /repo: schedsim instruments a scratch copy of /repo's working tree at check time (go/ast rewriter; generated files carry the build tag verif); histsim and chansim use the public API only",
   "baseline_off_cmd": BASE["cmd"],
   "source_commits": [],
   "add_only": True,
 },
 "engines": ENGINES,
 "checks": [CHECKS[k] for k in sorted(CHECKS)],
 "notes": NOTES,
 "not_applicable": na,
}
json.dump(m, open('/verif/MANIFEST.json', 'w'), indent=1)
try:
    import jsonschema
    jsonschema.validate(m, json.load(open('/root/.vp/MANIFEST.schema.json')))
    print("MANIFEST.json valid;", len(CHECKS), "checks,", len(na), "not applicable")
except ImportError:
    print("written (jsonschema not available in this interpreter)")

#!/usr/bin/env python3
import json,collections
rows=[json.loads(l) for l in open('/verif/mutcampaign/results.jsonl')]
c=collections.Counter((r['property'],r['suite']) for r in rows)
print("by property/suite:",dict(c))
surv=[r for r in rows if r['suite']=='pass']
print("survived the suite:",len(surv)," caught:",sum(1 for r in surv if r.get('check_exit')==1)," missed:",sum(1 for r in surv if r.get('check_exit')==0)," error:",sum(1 for r in surv if r.get('check_exit') not in (0,1)))
for r in surv:
    if r.get('check_exit')!=1:
        print(" %s %s:%d  %s  ->  %s  exit=%s"%(r['property'],r['file'],r['line'],r['before'][:70],r['after'][:70],r.get('check_exit')))

#!/usr/bin/env python3
"""Operator-based mutation campaign (complements the hand-made seeded changes).

Works on a private git worktree of /repo (default /tmp/mutrepo) and points the
checks at it with VERIF_REPO, so /repo itself is never touched. For every
mutant: build, run the repository's own suite; if the suite still passes, run
the quick check of the property the file is anchored in and record whether it
raises a VIOLATION.  usage: run.py <seed> <per-file> [file-filter]"""
import json, os, random, re, subprocess, sys, time

REPO = os.environ.get("MUT_REPO", "/tmp/mutrepo")
VDIR = os.environ.get("MUT_VERIF_DIR", "/tmp/mutverif")
OUT = "/verif/mutcampaign/results.jsonl"
ENV = dict(os.environ, GOFLAGS="-mod=mod", GOPROXY="off", GOSUMDB="off", GOTOOLCHAIN="local")

TARGETS = {
 "C16": ["bit_matrix.go", "bit_array.go", "go_image_bit_matrix.go"],
 "C17": ["rgb_luminance_source.go", "go_image_luminance_source.go", "planar_yuv_luminance_source.go",
         "inverted_luminance_source.go", "binary_bitmap.go", "global_histogram_binarizer.go", "hybrid_binarizer.go", "luminance_source.go"],
 "C04": ["common/reedsolomon/generic_gf.go", "common/reedsolomon/generic_gf_poly.go",
         "common/reedsolomon/reedsolomon_encoder.go", "common/reedsolomon/reedsolomon_decoder.go"],
 "C05": ["qrcode/decoder/decoder.go", "qrcode/decoder/data_block.go", "qrcode/decoder/format_information.go",
         "qrcode/decoder/bit_matrix_parser.go", "datamatrix/decoder/decoder.go", "datamatrix/decoder/data_block.go",
         "datamatrix/decoder/bit_matrix_parser.go", "datamatrix/encoder/error_correction.go", "qrcode/decoder/data_mask.go"],
 "C10": ["oned/upcean_reader.go", "oned/upce_reader.go", "oned/upce_writer.go", "oned/ean13_writer.go", "oned/ean8_writer.go",
         "oned/upca_writer.go", "oned/ean13_reader.go", "oned/ean8_reader.go", "oned/upca_reader.go", "oned/code128_writer.go",
         "oned/code128_reader.go", "oned/code93_writer.go", "oned/code93_reader.go", "oned/upcean_extension2_support.go",
         "oned/upcean_extension5_support.go", "oned/upcean_extension_support.go"],
 "C11": ["aztec/decoder/decoder.go", "aztec/detector/detector.go", "aztec/aztec_reader.go"],
}

OPS = [
 (r" < ", " <= "), (r" <= ", " < "), (r" > ", " >= "), (r" >= ", " > "), (r" == ", " != "), (r" != ", " == "),
 (r" && ", " || "), (r" \|\| ", " && "), (r" \+ 1\b", " + 2"), (r" - 1\b", " - 2"), (r" \+ 1\b", ""), (r" - 1\b", ""),
 (r" \+ ", " - "), (r" - ", " + "), (r"\b0x1f\b", "0x0f"), (r" % ", " / "), (r"<< ", ">> "), (r" \| ", " & "),
]

def sh(cmd, cwd=None, timeout=None, env=ENV):
    try:
        p = subprocess.run(cmd, shell=True, cwd=cwd, env=env, stdout=subprocess.PIPE, stderr=subprocess.STDOUT, timeout=timeout)
        return p.returncode, p.stdout.decode(errors="replace")
    except subprocess.TimeoutExpired:
        return 124, "timeout"

def candidates(path):
    lines = open(path).read().split("\n")
    out = []
    infunc = False
    for i, l in enumerate(lines):
        st = l.strip()
        if st.startswith("func "): infunc = True
        if not infunc or st.startswith("//") or st.startswith("import") or '"' in st and ("Exception" in st or "errors." in st):
            continue
        code = l.split("//")[0]
        for pat, rep in OPS:
            for m in re.finditer(pat, code):
                out.append((i, m.start(), m.end(), pat, rep))
    return lines, out

def main():
    seed, per = int(sys.argv[1]), int(sys.argv[2])
    flt = sys.argv[3] if len(sys.argv) > 3 else ""
    rnd = random.Random(seed)
    os.makedirs(VDIR, exist_ok=True)
    subprocess.run("cp /verif/known_findings.json %s/" % VDIR, shell=True)
    sh("git checkout -- . && git clean -fdq", cwd=REPO)
    done = set()
    if os.path.exists(OUT):
        for l in open(OUT):
            try:
                d = json.loads(l); done.add((d["file"], d["line"], d["col"], d["after_op"]))
            except Exception: pass
    for prop, files in TARGETS.items():
        for f in files:
            if flt and flt not in f and flt != prop: continue
            path = os.path.join(REPO, f)
            lines, cands = candidates(path)
            rnd.shuffle(cands)
            n = 0
            for (i, a, b, pat, rep) in cands:
                if n >= per: break
                key = (f, i + 1, a, rep)
                if key in done: continue
                orig = lines[i]
                mutated = orig[:a] + rep + orig[b:]
                if mutated == orig: continue
                new = lines[:]; new[i] = mutated
                open(path, "w").write("\n".join(new))
                rec = {"property": prop, "file": f, "line": i + 1, "col": a, "before": orig.strip(), "after": mutated.strip(), "after_op": rep, "t": time.strftime("%H:%M:%S")}
                rc, out = sh("go build ./... 2>&1 | tail -3", cwd=REPO, timeout=300)
                if "\n" in out.strip() or out.strip():
                    rec["suite"] = "build-fail"
                else:
                    rc, out = sh("go test -count=1 ./... 2>&1 | grep -v '^ok\\|no test files' | head -5", cwd=REPO, timeout=600)
                    if out.strip():
                        rec["suite"] = "killed-by-suite"
                    else:
                        rec["suite"] = "pass"
                        n += 1
                        rc, out = sh("VERIF_REPO=%s VERIF_DIR=%s ./check %s quick 2>&1" % (REPO, VDIR, prop), cwd="/verif", timeout=2400)
                        rec["check_exit"] = rc
                        rec["classes"] = sorted(set(re.findall(r"class=(\S+)", out)))[:4]
                        if rc not in (0, 1):
                            rec["tail"] = out[-400:]
                open(path, "w").write("\n".join(lines))
                with open(OUT, "a") as fh: fh.write(json.dumps(rec) + "\n")
                print(json.dumps(rec)[:260], flush=True)
    sh("git checkout -- .", cwd=REPO)

if __name__ == "__main__":
    main()

#!/usr/bin/env bash
# usage: tools_mut.sh <file-relative-to-repo> <python-regex-old> <new> <check-id> [tier]
# applies a one-off textual mutation to /repo, runs the check, reverts. For sensitivity probing only.
set -u
f="$1"; old="$2"; new="$3"; id="$4"; tier="${5:-quick}"
cd /repo
git diff --quiet || { echo "repo dirty"; exit 3; }
python3 - "$f" "$old" "$new" <<'PY'
import sys,re
f,old,new=sys.argv[1:4]
s=open(f).read()
n=len(re.findall(old,s))
assert n==1, "pattern matches %d times"%n
new=new.replace('\\n','\n').replace('\\t','\t')
open(f,'w').write(re.sub(old,lambda m:new,s))
PY
[ $? -eq 0 ] || { git checkout -- .; exit 3; }
( export GOFLAGS=-mod=mod GOPROXY=off GOSUMDB=off GOTOOLCHAIN=local; go build ./... && go test -count=1 ./... 2>&1 | grep -v "^ok\|no test files" | head -5; echo "suite-exit=$?" )
cd /verif && ./check "$id" "$tier" 2>&1 | grep -v "^  \|^goroutine\|^\t\|^$\|^runtime\.\|^main\.\|^verif/\|^github.com\|^created by\|^fatal\|^\[" | tail -8
echo "check-exit=${PIPESTATUS[0]}"
git -C /repo checkout -- .

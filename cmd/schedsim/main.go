package main

import (
	"fmt"
	"os"
	"os/signal"
	"syscall"
	"time"

	"verif/kit"
	"verif/schedsim"
)

func main() {
	clean, err := schedsim.Prepare()
	if err != nil {
		fmt.Fprintf(os.Stderr, "HARNESS-ERROR schedsim build: %v\n", err)
		clean()
		os.Exit(2)
	}
	// (kit's own handler kills the worker process groups; this one removes the scratch copy)
	sig := make(chan os.Signal, 1)
	signal.Notify(sig, syscall.SIGINT, syscall.SIGTERM, syscall.SIGHUP)
	go func() { <-sig; time.Sleep(300 * time.Millisecond); clean(); os.Exit(2) }()
	code := kit.MainCode(map[string]*kit.Spec{"C18": schedsim.C18()})
	clean()
	os.Exit(code)
}

package main

import (
	"fmt"
	"os"
	"os/signal"
	"syscall"

	"verif/kit"
	"verif/schedsim"
)

func main() {
	clean, err := schedsim.Prepare()
	if err != nil {
		fmt.Fprintf(os.Stderr, "HARNESS-ERROR schedsim build: %v\n", err)
		clean()
		os.Exit(2)
	}
	sig := make(chan os.Signal, 1)
	signal.Notify(sig, syscall.SIGINT, syscall.SIGTERM)
	go func() { <-sig; clean(); os.Exit(2) }()
	code := kit.MainCode(map[string]*kit.Spec{"C18": schedsim.C18()})
	clean()
	os.Exit(code)
}

package main

import (
	"verif/histsim"
	"verif/kit"
)

func main() {
	kit.Main(map[string]*kit.Spec{
		"C16": histsim.C16(),
		"C17": histsim.C17(),
	})
}

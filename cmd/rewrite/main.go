// rewrite instruments a scratch copy of the library (see verif/schedsim/rewrite).
//
// usage: rewrite <scratch-repo-dir>
package main

import (
	"fmt"
	"os"

	"verif/schedsim/rewrite"
)

func main() {
	if len(os.Args) != 2 {
		fmt.Fprintln(os.Stderr, "usage: rewrite <scratch-repo-dir>")
		os.Exit(2)
	}
	if err := rewrite.Run(os.Args[1]); err != nil {
		fmt.Fprintln(os.Stderr, err)
		os.Exit(2)
	}
}

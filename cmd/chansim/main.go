package main

import (
	"verif/chansim"
	"verif/kit"
)

func main() {
	kit.Main(map[string]*kit.Spec{
		"C04": chansim.C04(),
		"C05": chansim.C05(),
		"C10": chansim.C10(),
		"C11": chansim.C11(),
	})
}

package histsim

import (
	"encoding/json"
	"fmt"
	"image"
	"image/color"
	"strings"

	"github.com/makiuchi-d/gozxing"
	"github.com/makiuchi-d/gozxing/aztec"
	"github.com/makiuchi-d/gozxing/datamatrix"
	"github.com/makiuchi-d/gozxing/oned"
	"github.com/makiuchi-d/gozxing/qrcode"

	"verif/kit"
)

const c17Slots = 6

// Op17 is one step of a C17 history (slot references as in C16).
type Op17 struct {
	K string `json:"k"`
	A int    `json:"a,omitempty"` // source view slot
	C int    `json:"c,omitempty"` // destination slot
	X int    `json:"x,omitempty"`
	Y int    `json:"y,omitempty"`
	W int    `json:"w,omitempty"`
	H int    `json:"h,omitempty"`
	V uint64 `json:"v,omitempty"`
	B int    `json:"b,omitempty"` // buffer kind / binariser kind
}

type Trace17 struct {
	Ops []Op17 `json:"ops"`
}

// dataModel is the naive 2-D array a family of views looks at.
type dataModel struct {
	w, h int
	px   [][]byte // [y][x]
}

// viewModel is a window onto a dataModel, possibly inverted.
type viewModel struct {
	d          *dataModel
	l, t, w, h int
	inv        bool
	kind       string // "goimage" | "rgb" | "yuv" (decides which operations are supported)
}

func (v *viewModel) at(x, y int) byte {
	p := v.d.px[v.t+y][v.l+x]
	if v.inv {
		return 255 - p
	}
	return p
}

func (v *viewModel) bilevel() bool {
	for y := 0; y < v.h; y++ {
		for x := 0; x < v.w; x++ {
			if p := v.at(x, y); p != 0 && p != 255 {
				return false
			}
		}
	}
	return true
}

type customImage struct{ g *image.Gray }

func (c customImage) ColorModel() color.Model { return color.GrayModel }
func (c customImage) Bounds() image.Rectangle { return c.g.Bounds() }
func (c customImage) At(x, y int) color.Color { return c.g.At(x, y) }

type customAlphaImage struct{ g *image.NRGBA }

func (c customAlphaImage) ColorModel() color.Model { return color.NRGBAModel }
func (c customAlphaImage) Bounds() image.Rectangle { return c.g.Bounds() }
func (c customAlphaImage) At(x, y int) color.Color { return c.g.At(x, y) }

type world17 struct {
	src     [c17Slots]gozxing.LuminanceSource
	mod     [c17Slots]*viewModel
	lastBuf []byte // buffer returned by the previous GetRow
}

func genPixels(r *kit.RNG, w, h int, bilevel bool) [][]byte {
	px := make([][]byte, h)
	style := r.Intn(6)
	if style >= 4 {
		// large solid regions: a background with a few big rectangles, some
		// touching the image edges (whole 8x8 blocks of one colour, solid black
		// areas several blocks wide, an all-black or all-white image)
		bg, fg := byte(255), byte(0)
		if r.Bool() {
			bg, fg = 0, 255
		}
		if !bilevel {
			bg, fg = byte(200+r.Intn(56)), byte(r.Intn(40))
		}
		for y := range px {
			px[y] = make([]byte, w)
			for x := range px[y] {
				px[y][x] = bg
			}
		}
		for k, n := 0, r.Intn(4); k < n; k++ {
			x0, y0 := r.Intn(w), r.Intn(h)
			if r.Bool() {
				x0 = 0
			}
			if r.Bool() {
				y0 = 0
			}
			x1, y1 := x0+r.Range(1, w-x0), y0+r.Range(1, h-y0)
			if r.Chance(1, 3) {
				x1, y1 = w, h
			}
			for y := y0; y < y1; y++ {
				for x := x0; x < x1; x++ {
					px[y][x] = fg
				}
			}
		}
		return px
	}
	for y := range px {
		px[y] = make([]byte, w)
		for x := range px[y] {
			var v byte
			switch style {
			case 0: // noise
				v = byte(r.Intn(256))
			case 1: // blobs
				if ((x/3)+(y/2))%2 == 0 {
					v = byte(r.Intn(80))
				} else {
					v = byte(170 + r.Intn(86))
				}
			case 2: // gradient with marks: every pixel identifies its position
				v = byte((x*7 + y*13) & 0xff)
			default:
				v = byte(r.Intn(256))
			}
			if bilevel {
				switch style {
				case 0, 3:
					v = byte(255 * r.Intn(2))
				case 1:
					if ((x/3)+(y/2))%2 == 0 {
						v = 0
					} else {
						v = 255
					}
				default:
					if (x*7+y*13)%5 < 2 {
						v = 0
					} else {
						v = 255
					}
				}
			}
			px[y][x] = v
		}
	}
	return px
}

type fail17 = fail16

func (w *world17) compareView(i int, probes func(string)) *fail17 {
	s, m := w.src[i], w.mod[i]
	who := fmt.Sprintf("view[%d]", i)
	if s.GetWidth() != m.w || s.GetHeight() != m.h {
		return &fail17{"state:dims", fmt.Sprintf("%s: %dx%d, model %dx%d", who, s.GetWidth(), s.GetHeight(), m.w, m.h)}
	}
	mat := s.GetMatrix()
	if len(mat) < m.w*m.h {
		return &fail17{"state:matrixlen", fmt.Sprintf("%s: GetMatrix has %d bytes for %dx%d", who, len(mat), m.w, m.h)}
	}
	for y := 0; y < m.h; y++ {
		for x := 0; x < m.w; x++ {
			if mat[y*m.w+x] != m.at(x, y) {
				return &fail17{"state:pixels", fmt.Sprintf("%s: GetMatrix pixel (%d,%d) = %d, model %d (view %dx%d at %d,%d of %dx%d data, inverted=%v)", who, x, y, mat[y*m.w+x], m.at(x, y), m.w, m.h, m.l, m.t, m.d.w, m.d.h, m.inv)}
			}
		}
	}
	// a row fetched singly equals the same row of the full matrix
	step := 1
	if m.h > 24 {
		step = m.h / 12
	}
	for y := 0; y < m.h; y += step {
		row, err := s.GetRow(y, nil)
		if err != nil {
			return &fail17{"getrow:error", fmt.Sprintf("%s: GetRow(%d) of %d rows: %v", who, y, m.h, err)}
		}
		if len(row) < m.w {
			return &fail17{"getrow:len", fmt.Sprintf("%s: GetRow(%d) returned %d bytes for width %d", who, y, len(row), m.w)}
		}
		for x := 0; x < m.w; x++ {
			if row[x] != m.at(x, y) {
				return &fail17{"state:rowpixels", fmt.Sprintf("%s: GetRow(%d)[%d] = %d, model %d", who, y, x, row[x], m.at(x, y))}
			}
		}
	}
	return nil
}

func (w *world17) compareAll(probes func(string)) *fail17 {
	for i := 0; i < c17Slots; i++ {
		if w.src[i] != nil {
			if f := w.compareView(i, probes); f != nil {
				return f
			}
		}
	}
	return nil
}

func exec17(tr *Trace17, probes func(string)) (f *fail17, at int, executed int) {
	w := &world17{}
	for i, op := range tr.Ops {
		var skipped bool
		enter(op.K+"/hang", tr, fmt.Sprintf("step %d (%s) or the queries after it", i, op.K))
		f, skipped = w.step(op, probes)
		if !skipped {
			executed++
			probes("op." + op.K)
		}
		if f == nil && !skipped {
			func() {
				defer func() {
					if r := recover(); r != nil {
						f = &fail17{"panic-in-query", fmt.Sprintf("querying the views panicked: %v", r)}
					}
				}()
				f = w.compareAll(probes)
			}()
			if f != nil {
				f.class = op.K + "/" + f.class
				b, _ := json.Marshal(op)
				f.detail = fmt.Sprintf("after step %d (%s): %s", i, b, f.detail)
			}
		}
		leave()
		if f != nil {
			return f, i, executed
		}
	}
	return nil, -1, executed
}

func (w *world17) step(op Op17, probe func(string)) (f *fail17, skipped bool) {
	b, _ := json.Marshal(op)
	defer func() {
		if r := recover(); r != nil {
			f = &fail17{op.K + "/panic", fmt.Sprintf("step %s panicked: %v", b, r)}
			skipped = false
		}
	}()
	fail := func(kind, format string, args ...interface{}) (*fail17, bool) {
		return &fail17{op.K + "/" + kind, fmt.Sprintf("step %s: ", b) + fmt.Sprintf(format, args...)}, false
	}
	skip := func() (*fail17, bool) { return nil, true }
	a, c := mod(op.A, c17Slots), mod(op.C, c17Slots)
	switch op.K {
	case "newimg":
		// B: 0 gray, 1 RGBA opaque gray, 2 NRGBA with alpha, 3 paletted, 4 custom image.Image, 5 gray with non-zero origin
		if op.W < 1 || op.H < 1 || op.W > 220 || op.H > 220 {
			return skip()
		}
		r := kit.NewRNG(op.V)
		px := genPixels(r, op.W, op.H, op.Y == 1)
		var img image.Image
		model := &dataModel{op.W, op.H, px}
		switch mod(op.B, 6) {
		case 0, 5:
			ox, oy := 0, 0
			if mod(op.B, 6) == 5 {
				ox, oy = 3, -2
			}
			// every other time the image is a SubImage of a larger one, so
			// that the row stride differs from the width
			padL, padT, padR, padB := 0, 0, 0, 0
			if op.V&4 != 0 {
				padL, padT, padR, padB = 1+int(op.V>>3)%3, int(op.V>>5)%3, 1+int(op.V>>7)%4, int(op.V>>9)%2
				probe("probe.gray_subimage_stride_differs")
			}
			big := image.NewGray(image.Rect(ox-padL, oy-padT, ox+op.W+padR, oy+op.H+padB))
			for i := range big.Pix {
				big.Pix[i] = byte(r.Intn(256)) // surroundings: must never show up
			}
			for y := 0; y < op.H; y++ {
				for x := 0; x < op.W; x++ {
					big.SetGray(ox+x, oy+y, color.Gray{px[y][x]})
				}
			}
			img = big.SubImage(image.Rect(ox, oy, ox+op.W, oy+op.H))
		case 1:
			if op.V&32 != 0 {
				// a gray YCbCr frame (Cb = Cr = 128: luminance is exactly Y), as a
				// SubImage with a non-zero origin of a larger frame
				pad := 1 + int(op.V>>6)%5
				g := image.NewYCbCr(image.Rect(0, 0, op.W+2*pad, op.H+2*pad), image.YCbCrSubsampleRatio444)
				for i := range g.Y {
					g.Y[i] = byte(r.Intn(256))
				}
				for i := range g.Cb {
					g.Cb[i], g.Cr[i] = 128, 128
				}
				for y := 0; y < op.H; y++ {
					for x := 0; x < op.W; x++ {
						g.Y[g.YOffset(x+pad, y+pad)] = px[y][x]
					}
				}
				probe("probe.ycbcr_subimage")
				img = g.SubImage(image.Rect(pad, pad, pad+op.W, pad+op.H))
				break
			}
			pad := 0
			if op.V&4 != 0 {
				pad = 2
				probe("probe.rgba_subimage_stride_differs")
			}
			g := image.NewRGBA(image.Rect(-pad, -pad, op.W+pad, op.H+pad))
			for i := range g.Pix {
				g.Pix[i] = byte(r.Intn(256))
			}
			for y := 0; y < op.H; y++ {
				for x := 0; x < op.W; x++ {
					g.SetRGBA(x, y, color.RGBA{px[y][x], px[y][x], px[y][x], 255})
				}
			}
			img = g.SubImage(image.Rect(0, 0, op.W, op.H))
		case 2:
			// alpha: fully transparent pixels are white whatever their colour,
			// opaque gray pixels keep their value
			g := image.NewNRGBA(image.Rect(0, 0, op.W, op.H))
			for y := 0; y < op.H; y++ {
				for x := 0; x < op.W; x++ {
					if r.Chance(1, 5) {
						g.SetNRGBA(x, y, color.NRGBA{byte(r.Intn(256)), byte(r.Intn(256)), byte(r.Intn(256)), 0})
						px[y][x] = 255
					} else {
						g.SetNRGBA(x, y, color.NRGBA{px[y][x], px[y][x], px[y][x], 255})
					}
				}
			}
			img = g
		case 3:
			if op.V&16 != 0 {
				// 16-bit gray: value v*257 is exactly luminance v
				g := image.NewGray16(image.Rect(0, 0, op.W, op.H))
				for y := 0; y < op.H; y++ {
					for x := 0; x < op.W; x++ {
						g.SetGray16(x, y, color.Gray16{uint16(px[y][x]) * 257})
					}
				}
				probe("probe.gray16_image")
				img = g
				break
			}
			pal := make(color.Palette, 256)
			for i := range pal {
				pal[i] = color.Gray{byte(i)}
			}
			if op.V&32 != 0 {
				// an indexed image with a transparent colour (GIF, indexed PNG):
				// the entry used for white is fully transparent, whatever colour
				// it has underneath; transparent is white
				pal[255] = color.NRGBA{byte(r.Intn(256)), byte(r.Intn(256)), byte(r.Intn(256)), 0}
				probe("probe.paletted_image_with_transparent_entry")
			}
			g := image.NewPaletted(image.Rect(0, 0, op.W, op.H), pal)
			for y := 0; y < op.H; y++ {
				for x := 0; x < op.W; x++ {
					g.SetColorIndex(x, y, px[y][x])
				}
			}
			img = g
		default:
			if op.V&8 != 0 {
				// a custom image type (only image.Image) with transparent pixels:
				// the generic colour path must blend them to white too
				g := image.NewNRGBA(image.Rect(0, 0, op.W, op.H))
				for y := 0; y < op.H; y++ {
					for x := 0; x < op.W; x++ {
						if r.Chance(1, 5) {
							g.SetNRGBA(x, y, color.NRGBA{byte(r.Intn(256)), byte(r.Intn(256)), byte(r.Intn(256)), 0})
							px[y][x] = 255
						} else {
							g.SetNRGBA(x, y, color.NRGBA{px[y][x], px[y][x], px[y][x], 255})
						}
					}
				}
				probe("probe.custom_image_with_alpha")
				img = customAlphaImage{g}
				break
			}
			g := image.NewGray(image.Rect(0, 0, op.W, op.H))
			for y := 0; y < op.H; y++ {
				for x := 0; x < op.W; x++ {
					g.SetGray(x, y, color.Gray{px[y][x]})
				}
			}
			img = customImage{g}
		}
		s := gozxing.NewLuminanceSourceFromImage(img)
		if s == nil {
			return fail("nil", "constructor returned nil")
		}
		w.src[c], w.mod[c] = s, &viewModel{d: model, w: op.W, h: op.H, kind: "goimage"}
	case "newrgb":
		if op.W < 1 || op.H < 1 || op.W > 220 || op.H > 220 {
			return skip()
		}
		r := kit.NewRNG(op.V)
		px := genPixels(r, op.W, op.H, op.Y == 1)
		ints := make([]int, op.W*op.H)
		// the bits above the 24 colour bits carry no colour: callers pass
		// 0xRRGGBB, 0xFFRRGGBB, sign-extended -1 for white, or a mixture
		topStyle := r.Intn(5)
		top := func() int {
			switch topStyle {
			case 0:
				return 0xFF000000
			case 1:
				return 0
			case 2:
				return r.Intn(256) << 24
			case 3:
				if r.Chance(1, 2) {
					return 0
				}
				return 0xFF000000
			default:
				return -1 << 24 // sign-extended (all higher bits set)
			}
		}
		if topStyle != 0 {
			probe("probe.rgb_ints_with_other_top_bytes")
		}
		for y := 0; y < op.H; y++ {
			for x := 0; x < op.W; x++ {
				if op.Y == 1 || r.Chance(1, 2) {
					v := int(px[y][x])
					ints[y*op.W+x] = top() | v<<16 | v<<8 | v
				} else {
					rr, gg, bb := r.Intn(256), r.Intn(256), r.Intn(256)
					ints[y*op.W+x] = top() | rr<<16 | gg<<8 | bb
					px[y][x] = byte((rr + 2*gg + bb) / 4)
				}
			}
		}
		s := gozxing.NewRGBLuminanceSource(op.W, op.H, ints)
		w.src[c], w.mod[c] = s, &viewModel{d: &dataModel{op.W, op.H, px}, w: op.W, h: op.H, kind: "rgb"}
	case "newyuv":
		// data W x H, view (X, Y, op.A as width, op.B as height), V bit 0 = reverseHorizontal
		dw, dh := op.W, op.H
		vw, vh := op.A, op.B
		if dw < 1 || dh < 1 || dw > 220 || dh > 220 || vw < 1 || vh < 1 {
			return skip()
		}
		r := kit.NewRNG(op.V)
		px := genPixels(r, dw, dh, op.V&2 != 0)
		buf := make([]byte, dw*dh+dw*dh/2)
		for y := 0; y < dh; y++ {
			copy(buf[y*dw:], px[y])
		}
		for i := dw * dh; i < len(buf); i++ {
			buf[i] = byte(r.Intn(256)) // chroma planes: must never show up
		}
		rev := op.V&1 != 0
		valid := op.X >= 0 && op.Y >= 0 && op.X+vw <= dw && op.Y+vh <= dh
		s, err := gozxing.NewPlanarYUVLuminanceSource(buf, dw, dh, op.X, op.Y, vw, vh, rev)
		if valid != (err == nil) {
			return fail("error", "NewPlanarYUVLuminanceSource(data %dx%d, rect %d,%d %dx%d): err=%v, model says valid=%v", dw, dh, op.X, op.Y, vw, vh, err, valid)
		}
		if !valid {
			probe("probe.yuv_constructor_rejected")
			return nil, false
		}
		if rev {
			probe("probe.yuv_reverse_horizontal")
			for y := op.Y; y < op.Y+vh; y++ {
				for x1, x2 := op.X, op.X+vw-1; x1 < x2; x1, x2 = x1+1, x2-1 {
					px[y][x1], px[y][x2] = px[y][x2], px[y][x1]
				}
			}
		}
		w.src[c], w.mod[c] = s, &viewModel{d: &dataModel{dw, dh, px}, l: op.X, t: op.Y, w: vw, h: vh, kind: "yuv"}
	case "crop":
		s, m := w.src[a], w.mod[a]
		if s == nil || op.W < 1 || op.H < 1 {
			return skip()
		}
		nl, nt := m.l+op.X, m.t+op.Y
		valid := op.X >= 0 && op.Y >= 0 && nl+op.W <= m.d.w && nt+op.H <= m.d.h
		if !s.IsCropSupported() {
			return fail("unsupported", "IsCropSupported is false for a %s source", m.kind)
		}
		ns, err := s.Crop(op.X, op.Y, op.W, op.H)
		if valid != (err == nil && ns != nil) {
			return fail("error", "Crop(%d,%d,%d,%d) of a %dx%d view at (%d,%d) of %dx%d data: err=%v, model says valid=%v", op.X, op.Y, op.W, op.H, m.w, m.h, m.l, m.t, m.d.w, m.d.h, err, valid)
		}
		if !valid {
			if op.X < 0 || op.Y < 0 {
				probe("probe.crop_negative_origin_rejected")
			} else {
				probe("probe.crop_outside_data_rejected")
			}
			return nil, false
		}
		if op.X+op.W > m.w || op.Y+op.H > m.h {
			probe("probe.crop_beyond_view_inside_data")
		}
		if m.l != 0 || m.t != 0 {
			probe("probe.crop_of_a_crop")
		}
		w.src[c], w.mod[c] = ns, &viewModel{d: m.d, l: nl, t: nt, w: op.W, h: op.H, inv: m.inv, kind: m.kind}
	case "invert":
		s, m := w.src[a], w.mod[a]
		if s == nil {
			return skip()
		}
		// the three public ways to get the negative of a source
		var ns gozxing.LuminanceSource
		switch mod(op.B, 4) {
		case 1:
			ns = gozxing.NewInvertedLuminanceSource(s)
			probe("probe.invert_by_constructor")
		case 2:
			ns = gozxing.LuminanceSourceInvert(s)
			probe("probe.invert_by_helper")
		default:
			ns = s.Invert()
		}
		if ns == nil {
			return fail("nil", "Invert returned nil")
		}
		if m.inv {
			probe("probe.invert_of_inverted")
		}
		nm := *m
		nm.inv = !m.inv
		w.src[c], w.mod[c] = ns, &nm
	case "rotate":
		s, m := w.src[a], w.mod[a]
		if s == nil {
			return skip()
		}
		ns, err := s.RotateCounterClockwise()
		if m.kind != "goimage" && (err != nil || ns == nil) {
			// a source kind without rotation says so, by error and by IsRotateSupported
			if s.IsRotateSupported() {
				return fail("error", "a %s source says it supports rotation and fails to rotate (err=%v)", m.kind, err)
			}
			probe("probe.rotate_unsupported_error")
			return nil, false
		}
		if err != nil || ns == nil {
			return fail("error", "RotateCounterClockwise failed: %v", err)
		}
		// whatever kind of source rotates: the result is the model's quarter turn
		if m.kind != "goimage" {
			probe("probe.rotation_of_another_source_kind")
		}
		if m.w != m.h {
			probe("probe.rotate_non_square")
		}
		nd := &dataModel{w: m.h, h: m.w, px: make([][]byte, m.w)}
		for j := 0; j < m.w; j++ {
			nd.px[j] = make([]byte, m.h)
			for i := 0; i < m.h; i++ {
				// counter-clockwise: new (x=i, y=j) = old (x=W-1-j, y=i); inversion stays a view property
				nd.px[j][i] = m.d.px[m.t+i][m.l+m.w-1-j]
			}
		}
		w.src[c], w.mod[c] = ns, &viewModel{d: nd, w: m.h, h: m.w, inv: m.inv, kind: m.kind}
	case "rotate45":
		s := w.src[a]
		if s == nil {
			return skip()
		}
		if ns, err := s.RotateCounterClockwise45(); err == nil && ns == nil {
			return fail("error", "RotateCounterClockwise45 returned neither a source nor an error")
		} else if err == nil {
			probe("probe.rotate45_supported(not_modelled)")
		}
	case "getrow":
		// B: 0 nil, 1 short, 2 exact, 3 long, 4 the slice returned by the previous call
		s, m := w.src[a], w.mod[a]
		if s == nil {
			return skip()
		}
		var buf []byte
		switch mod(op.B, 5) {
		case 1:
			if m.w > 1 {
				buf = make([]byte, m.w-1)
			}
		case 2:
			buf = make([]byte, m.w)
		case 3:
			buf = make([]byte, m.w+5)
			for i := range buf {
				buf[i] = 0x5A
			}
		case 4:
			buf = w.lastBuf
		}
		row, err := s.GetRow(op.Y, buf)
		if op.Y < 0 || op.Y >= m.h {
			probe("probe.row_outside_view")
			if err == nil {
				return fail("error", "GetRow(%d) of a view with %d rows returned no error", op.Y, m.h)
			}
			return nil, false
		}
		if err != nil {
			return fail("error", "GetRow(%d): %v", op.Y, err)
		}
		if len(row) < m.w {
			return fail("len", "GetRow returned %d bytes for width %d", len(row), m.w)
		}
		for x := 0; x < m.w; x++ {
			if row[x] != m.at(x, op.Y) {
				return fail("pixels", "GetRow(%d)[%d] = %d, model %d", op.Y, x, row[x], m.at(x, op.Y))
			}
		}
		if len(buf) >= m.w && len(buf) > 0 {
			if &row[0] != &buf[0] {
				probe("probe.sufficient_buffer_not_reused")
			} else {
				probe("probe.buffer_reused")
			}
			if mod(op.B, 5) == 3 {
				for i := m.w; i < len(buf); i++ {
					if buf[i] != 0x5A {
						return fail("overrun", "GetRow wrote beyond the view width into the caller's longer buffer (index %d)", i)
					}
				}
			}
		}
		w.lastBuf = row
		if op.V&1 == 1 {
			// mutate the returned buffer: no view may change
			probe("probe.returned_row_buffer_scribbled")
			for i := range row {
				row[i] ^= 0xA7
			}
		}
	case "string":
		s, m := w.src[a], w.mod[a]
		if s == nil || m.w*m.h > 4000 {
			return skip()
		}
		// String() is a picture of the view, one character per pixel and one line
		// per row; which characters stand for which luminance is presentation,
		// but it must be a function of the pixel's luminance (the same luminance
		// cannot show as two characters: that would be pixels from elsewhere)
		got := s.String()
		lines := strings.Split(strings.TrimSuffix(got, "\n"), "\n")
		if len(lines) != m.h {
			return fail("string", "String() has %d lines for a view of %d rows", len(lines), m.h)
		}
		glyph := map[int]byte{}
		for y := 0; y < m.h; y++ {
			if len(lines[y]) != m.w {
				return fail("string", "String() line %d has %d characters for a view %d pixels wide", y, len(lines[y]), m.w)
			}
			for x := 0; x < m.w; x++ {
				v := int(m.at(x, y))
				if g, ok := glyph[v]; ok && g != lines[y][x] {
					return fail("string", "String() shows luminance %d as %q at (%d,%d) and as %q elsewhere: not a picture of this view", v, lines[y][x], x, y, g)
				}
				glyph[v] = lines[y][x]
			}
		}
		// a darker pixel is never shown with the glyph of a lighter one while a
		// lighter pixel gets the darker one's: the mapping is monotone in blocks
		if len(glyph) > 1 {
			last, changes := byte(0), 0
			seen := map[byte]bool{}
			for v := 0; v < 256; v++ {
				g, ok := glyph[v]
				if !ok {
					continue
				}
				if g != last {
					if seen[g] {
						return fail("string", "String() uses %q for luminances on both sides of another glyph: not a function of brightness bands", g)
					}
					seen[g] = true
					last = g
					changes++
				}
			}
		}
		// the half-size preview of a YUV view shows every second pixel of the view
		if y, ok := s.(*gozxing.PlanarYUVLuminanceSource); ok {
			tw, th := y.GetThumbnailWidth(), y.GetThumbnailHeight()
			px := y.RenderThumbnail()
			if len(px) != tw*th {
				return fail("thumbnail", "RenderThumbnail returned %d pixels for %dx%d", len(px), tw, th)
			}
			if tw > 0 && th > 0 {
				// whatever the reduction factor: pixel (x,y) of the preview is the
				// opaque grey of the view's pixel (x*f, y*f)
				fx, fy := m.w/tw, m.h/th
				if fx < 1 || fy < 1 || tw > m.w || th > m.h {
					return fail("thumbnail", "thumbnail is %dx%d for a %dx%d view", tw, th, m.w, m.h)
				}
				for ty := 0; ty < th; ty++ {
					for tx := 0; tx < tw; tx++ {
						g := uint(m.at(fx*tx, fy*ty))
						if px[ty*tw+tx] != 0xFF000000|g*0x00010101 {
							return fail("thumbnail", "thumbnail pixel (%d,%d) = %#x, the view's pixel (%d,%d) is %d", tx, ty, px[ty*tw+tx], fx*tx, fy*ty, g)
						}
					}
				}
			}
			probe("probe.yuv_thumbnail_checked")
		}
	case "binarize":
		// B: 0 hybrid, 1 global. Sequence: matrix, matrix again, rows with reused array, crop, rotate.
		s, m := w.src[a], w.mod[a]
		if s == nil {
			return skip()
		}
		return w.binarize(op, s, m, probe, fail)
	default:
		return skip()
	}
	return nil, false
}

func maxI(a, b int) int {
	if a > b {
		return a
	}
	return b
}

func minI(a, b int) int {
	if a < b {
		return a
	}
	return b
}

// globalRowModel is the documented row method of the global-histogram
// binariser: 32-bucket histogram of the row, the tallest peak and the peak
// that maximises count x distance^2, rejection when they are at most two
// buckets apart, the valley between them that maximises
// (x-first)^2 * (second-x) * (tallest - count[x]) scanning down from the
// second peak, black point = valley * 8; then the -1 4 -1 sharpening filter
// with weight 2 on interior pixels (edge pixels stay white), or a plain
// comparison for rows shorter than 3.
func globalRowModel(lum []int) ([]bool, bool) {
	var b [32]int
	for _, v := range lum {
		b[v>>3]++
	}
	first, firstSize, tallest := 0, 0, 0
	for x := 0; x < 32; x++ {
		if b[x] > firstSize {
			first, firstSize = x, b[x]
		}
		if b[x] > tallest {
			tallest = b[x]
		}
	}
	second, score := 0, 0
	for x := 0; x < 32; x++ {
		d := x - first
		if sc := b[x] * d * d; sc > score {
			second, score = x, sc
		}
	}
	if first > second {
		first, second = second, first
	}
	if second-first <= 2 {
		return nil, false
	}
	valley, vscore := second-1, -1
	for x := second - 1; x > first; x-- {
		ff := x - first
		if sc := ff * ff * (second - x) * (tallest - b[x]); sc > vscore {
			valley, vscore = x, sc
		}
	}
	bp := valley << 3
	out := make([]bool, len(lum))
	if len(lum) < 3 {
		for x, v := range lum {
			out[x] = v < bp
		}
		return out, true
	}
	for x := 1; x < len(lum)-1; x++ {
		out[x] = (lum[x]*4-lum[x-1]-lum[x+1])/2 < bp
	}
	return out, true
}

func copyMatrix(a *gozxing.BitMatrix) *gozxing.BitMatrix {
	b, _ := gozxing.NewBitMatrix(a.GetWidth(), a.GetHeight())
	for y := 0; y < a.GetHeight(); y++ {
		for x := 0; x < a.GetWidth(); x++ {
			if a.Get(x, y) {
				b.Set(x, y)
			}
		}
	}
	return b
}

func matrixEq(a, b *gozxing.BitMatrix) bool {
	if a.GetWidth() != b.GetWidth() || a.GetHeight() != b.GetHeight() {
		return false
	}
	for y := 0; y < a.GetHeight(); y++ {
		for x := 0; x < a.GetWidth(); x++ {
			if a.Get(x, y) != b.Get(x, y) {
				return false
			}
		}
	}
	return true
}

func isNotFound(err error) bool {
	_, ok := err.(gozxing.NotFoundException)
	return ok
}

// checkBlack compares a black matrix with (luminance == 0) on a bilevel view.
func checkBlack(bm *gozxing.BitMatrix, m *viewModel, what string) string {
	if bm.GetWidth() != m.w || bm.GetHeight() != m.h {
		return fmt.Sprintf("%s: black matrix is %dx%d for a %dx%d view", what, bm.GetWidth(), bm.GetHeight(), m.w, m.h)
	}
	for y := 0; y < m.h; y++ {
		for x := 0; x < m.w; x++ {
			if bm.Get(x, y) != (m.at(x, y) == 0) {
				return fmt.Sprintf("%s: pixel (%d,%d) of a pure black/white %dx%d image has luminance %d but black=%v", what, x, y, m.w, m.h, m.at(x, y), bm.Get(x, y))
			}
		}
	}
	return ""
}

// checkRows reads a few rows through BinaryBitmap.GetBlackRow (re-using the
// returned array) and compares them with the row model of the global method.
func checkRows(bmp *gozxing.BinaryBitmap, m *viewModel, bl bool, r *kit.RNG, probe func(string), fail func(string, string, ...interface{}) (*fail17, bool), what string) (*fail17, bool) {
	var arr *gozxing.BitArray
	// a row obtained WITHOUT handing in an array belongs to the caller: it is
	// kept (with a private copy) and must not change when more rows are fetched
	var kept *gozxing.BitArray
	var keptBits []bool
	keptY := 0
	for i := 0; i < 5; i++ {
		y := r.Intn(m.h)
		if i == 2 || i == 3 {
			arr = nil // ask for a fresh array twice in a row
		}
		if arr != nil && arr == kept {
			kept = nil // handed back in: the library may do with it what it likes
		}
		row, err := bmp.GetBlackRow(y, arr)
		if kept != nil {
			for x := 0; x < len(keptBits); x++ {
				if kept.Get(x) != keptBits[x] {
					return fail("row-changes-later", "%sthe row GetBlackRow(%d, nil) returned earlier changed at pixel %d when GetBlackRow(%d, ...) was called", what, keptY, x, y)
				}
			}
		}
		if err == nil && row != nil && arr == nil && row.GetSize() >= m.w {
			kept, keptY = row, y
			keptBits = make([]bool, m.w)
			for x := range keptBits {
				keptBits[x] = row.Get(x)
			}
		}
		lum := make([]int, m.w)
		for x := range lum {
			lum[x] = int(m.at(x, y))
		}
		exp, ok := globalRowModel(lum)
		if err != nil {
			if !isNotFound(err) {
				probe("probe.rejection_with_another_error_type")
			}
			if ok {
				return fail("row-rejected", "%sGetBlackRow(%d) reported no contrast although the row's histogram has two separated peaks", what, y)
			}
			continue
		}
		if row == nil || row.GetSize() < m.w {
			return fail("row", "%sGetBlackRow returned an array shorter than the width", what)
		}
		arr = row
		if !ok {
			return fail("row-contrast", "%sGetBlackRow(%d) returned a row although the row's histogram has no two separated peaks", what, y)
		}
		for x := 0; x < m.w; x++ {
			if row.Get(x) != exp[x] {
				l, c, rr := lum[maxI(x-1, 0)], lum[x], lum[minI(x+1, m.w-1)]
				cls := "row-grey"
				if bl {
					cls = "row-bilevel"
				}
				return fail(cls, "%sGetBlackRow(%d) pixel %d: neighbourhood %d,%d,%d gives black=%v, the sharpened-threshold model says %v (width %d)", what, y, x, l, c, rr, row.Get(x), exp[x], m.w)
			}
		}
		if bl {
			probe("probe.bilevel_black_row_checked")
		} else {
			probe("probe.grey_black_row_checked")
		}
	}
	return nil, false
}

func (w *world17) binarize(op Op17, s gozxing.LuminanceSource, m *viewModel, probe func(string), fail func(string, string, ...interface{}) (*fail17, bool)) (*fail17, bool) {
	var bin gozxing.Binarizer
	name := "hybrid"
	if mod(op.B, 2) == 0 {
		bin = gozxing.NewHybridBinarizer(s)
	} else {
		bin = gozxing.NewGlobalHistgramBinarizer(s)
		name = "global"
	}
	bmp, err := gozxing.NewBinaryBitmap(bin)
	if err != nil || bmp == nil {
		return fail("error", "NewBinaryBitmap: %v", err)
	}
	if bmp.GetWidth() != m.w || bmp.GetHeight() != m.h {
		return fail("dims", "bitmap %dx%d for view %dx%d", bmp.GetWidth(), bmp.GetHeight(), m.w, m.h)
	}
	bl := m.bilevel()
	if bl {
		probe("probe.bilevel_" + name)
		if m.w < 40 || m.h < 40 {
			probe("probe.bilevel_below_40px")
		} else if m.w%8 != 0 || m.h%8 != 0 {
			probe("probe.bilevel_size_not_multiple_of_8")
		}
	}
	m1, e1 := bmp.GetBlackMatrix()
	if e1 != nil {
		if !isNotFound(e1) {
			probe("probe.rejection_with_another_error_type")
		}
		if bl && name == "hybrid" && m.w >= 40 && m.h >= 40 {
			return fail("notfound", "local method rejected a pure black/white %dx%d image", m.w, m.h)
		}
		probe("probe.no_contrast_rejected")
		// asking again must not turn the rejection into a (wrong) matrix
		if mAgain, eAgain := bmp.GetBlackMatrix(); eAgain == nil {
			if mAgain == nil {
				return fail("cache", "second GetBlackMatrix after a rejection returned neither matrix nor error")
			}
			if bl {
				if msg := checkBlack(mAgain, m, name+" (second call after a rejection)"); msg != "" {
					return fail("bilevel", "%s", msg)
				}
			}
		} else if !isNotFound(eAgain) {
			probe("probe.rejection_with_another_error_type")
		}
	} else {
		if bl {
			if msg := checkBlack(m1, m, name); msg != "" {
				return fail("bilevel", "%s", msg)
			}
		}
		m2, e2 := bmp.GetBlackMatrix()
		if e2 != nil || !matrixEq(m1, m2) {
			return fail("cache", "second GetBlackMatrix differs from the first (err=%v)", e2)
		}
		// The bitmap is handed to readers, possibly several in turn. Whatever they
		// find or fail to find, the bitmap must still answer with the same matrix.
		if op.V%2 == 0 {
			before := copyMatrix(m1)
			rr := kit.NewRNG(op.V ^ 0x5eed)
			tried := runReaders(bmp, rr)
			probe("probe.readers_run_over_bitmap")
			m3, e3 := bmp.GetBlackMatrix()
			if e3 != nil || !matrixEq(before, m3) {
				return fail("cache-after-read", "GetBlackMatrix (%s) changed after the bitmap was read by %s (err=%v)", name, tried, e3)
			}
		}
	}
	// rows of the global method, with a reused array
	r := kit.NewRNG(op.V)
	if f, sk := checkRows(bmp, m, bl, r, probe, fail, ""); f != nil {
		return f, sk
	}
	// crops the model rejects must be rejected by the bitmap too (same size as
	// the view but shifted, negative origin, reaching outside the data)
	if bmp.IsCropSupported() {
		type rect struct{ l, t, w, h int }
		for _, q := range []rect{{1 + r.Intn(3), 0, m.w, m.h}, {0, 1 + r.Intn(3), m.w, m.h}, {-1 - r.Intn(3), 0, m.w, m.h}, {0, -1, m.w, m.h}, {0, 0, m.w, m.h}} {
			valid := q.l >= 0 && q.t >= 0 && m.l+q.l+q.w <= m.d.w && m.t+q.t+q.h <= m.d.h
			cb, err := bmp.Crop(q.l, q.t, q.w, q.h)
			if valid != (err == nil && cb != nil) {
				return fail("crop", "BinaryBitmap.Crop(%d,%d,%d,%d) of a %dx%d view at (%d,%d) of %dx%d data: err=%v, model says valid=%v", q.l, q.t, q.w, q.h, m.w, m.h, m.l, m.t, m.d.w, m.d.h, err, valid)
			}
			if valid {
				cm := &viewModel{d: m.d, l: m.l + q.l, t: m.t + q.t, w: q.w, h: q.h, inv: m.inv, kind: m.kind}
				if mm, err := cb.GetBlackMatrix(); err == nil && cm.bilevel() {
					if msg := checkBlack(mm, cm, name+" after a same-size Crop"); msg != "" {
						return fail("bilevel-crop", "%s", msg)
					}
				}
			}
		}
	}
	// crop: the cached matrix must not survive
	if m.w >= 4 && m.h >= 4 && bmp.IsCropSupported() {
		cl, ct := r.Intn(m.w/2), r.Intn(m.h/2)
		cw, ch := r.Range(1, m.w-cl), r.Range(1, m.h-ct)
		cb, err := bmp.Crop(cl, ct, cw, ch)
		if err != nil || cb == nil {
			return fail("crop", "BinaryBitmap.Crop(%d,%d,%d,%d) of %dx%d failed: %v", cl, ct, cw, ch, m.w, m.h, err)
		}
		cm := &viewModel{d: m.d, l: m.l + cl, t: m.t + ct, w: cw, h: ch, inv: m.inv, kind: m.kind}
		if cb.GetWidth() != cw || cb.GetHeight() != ch {
			return fail("crop", "cropped bitmap is %dx%d, asked %dx%d", cb.GetWidth(), cb.GetHeight(), cw, ch)
		}
		if mm, err := cb.GetBlackMatrix(); err == nil {
			if cm.bilevel() {
				if msg := checkBlack(mm, cm, name+" after Crop"); msg != "" {
					return fail("bilevel-crop", "%s", msg)
				}
			} else if mm.GetWidth() != cw || mm.GetHeight() != ch {
				return fail("crop", "black matrix of the cropped bitmap has the wrong size")
			}
		} else if !isNotFound(err) {
			probe("probe.rejection_with_another_error_type")
		}
		// rows of the derived bitmap (its binariser was created from the parent's)
		if f, sk := checkRows(cb, cm, cm.bilevel(), r, probe, fail, "after BinaryBitmap.Crop: "); f != nil {
			return f, sk
		}
	}
	if bmp.IsRotateSupported() {
		rb, err := bmp.RotateCounterClockwise()
		if err != nil || rb == nil {
			return fail("rotate", "BinaryBitmap.RotateCounterClockwise failed: %v", err)
		}
		if rb.GetWidth() != m.h || rb.GetHeight() != m.w {
			return fail("rotate", "rotated bitmap is %dx%d for a %dx%d original", rb.GetWidth(), rb.GetHeight(), m.w, m.h)
		}
		if mm, err := rb.GetBlackMatrix(); err == nil && bl {
			for j := 0; j < m.w; j++ {
				for i := 0; i < m.h; i++ {
					if mm.Get(i, j) != (m.at(m.w-1-j, i) == 0) {
						return fail("bilevel-rotate", "rotated black matrix (%d,%d) differs from the rotated model", i, j)
					}
				}
			}
		}
	}
	return nil, false
}

// runReaders hands the bitmap to one to three readers with a random set of
// hints. Results, errors and reader panics are not this property's business.
func runReaders(bmp *gozxing.BinaryBitmap, r *kit.RNG) string {
	hints := map[gozxing.DecodeHintType]interface{}{}
	desc := ""
	for _, h := range []struct {
		k gozxing.DecodeHintType
		n string
	}{{gozxing.DecodeHintType_TRY_HARDER, "TRY_HARDER"}, {gozxing.DecodeHintType_PURE_BARCODE, "PURE_BARCODE"}, {gozxing.DecodeHintType_ALSO_INVERTED, "ALSO_INVERTED"}} {
		if r.Chance(1, 2) {
			hints[h.k] = true
			desc += "+" + h.n
		}
	}
	readers := []struct {
		n string
		r gozxing.Reader
	}{{"qr", qrcode.NewQRCodeReader()}, {"dm", datamatrix.NewDataMatrixReader()}, {"aztec", aztec.NewAztecReader()}, {"upcean", oned.NewMultiFormatUPCEANReader(nil)}, {"code128", oned.NewCode128Reader()}}
	n := r.Range(1, 3)
	out := ""
	for i := 0; i < n; i++ {
		rd := readers[r.Intn(len(readers))]
		out += rd.n + desc + " "
		func() {
			defer func() { _ = recover() }()
			_, _ = rd.r.Decode(bmp, hints)
		}()
	}
	return out
}

// ---------------------------------------------------------------------- generation

func biasedSize(r *kit.RNG) int {
	switch r.Intn(6) {
	case 0:
		return r.Range(1, 8)
	case 1:
		return r.Range(36, 50) // straddles the 40-pixel switch
	case 2:
		return 8*r.Range(1, 12) + r.Range(-1, 1)
	case 3:
		return r.Range(1, 200)
	default:
		return r.Range(1, 60)
	}
}

func gen17(c *kit.Ctx) *Trace17 {
	r := c.RNG
	tr := &Trace17{}
	add := func(op Op17) { tr.Ops = append(tr.Ops, op) }
	bilevel := 0
	if r.Chance(1, 2) {
		bilevel = 1
	}
	// quick binariser sweep: run index enumerates all sizes 1..48 x 1..48
	w, h := biasedSize(r), biasedSize(r)
	if c.Run%3 == 0 {
		i := c.Run / 3
		w, h = 1+i%48, 1+(i/48)%48
		if i/(48*48)%2 == 1 {
			w, h = w+152, h+152 // large sizes too
		}
		bilevel = 1
	}
	switch r.Intn(5) {
	case 0:
		add(Op17{K: "newrgb", C: 0, W: w, H: h, V: r.Uint64(), Y: bilevel})
	case 1:
		vw, vh := r.Range(1, w), r.Range(1, h)
		v := r.Uint64()&^3 | uint64(r.Intn(2)) | uint64(bilevel)<<1
		add(Op17{K: "newyuv", C: 0, W: w, H: h, A: vw, B: vh, X: r.Intn(w - vw + 1), Y: r.Intn(h - vh + 1), V: v})
	default:
		add(Op17{K: "newimg", C: 0, W: w, H: h, V: r.Uint64(), Y: bilevel, B: r.Intn(6)})
	}
	n := r.Range(2, 9)
	kinds := []string{"crop", "crop", "crop", "invert", "rotate", "rotate45", "getrow", "getrow", "string", "binarize", "binarize", "newimg", "newyuv"}
	weights := make([]int, len(kinds))
	for i := range weights {
		if r.Chance(8, 10) {
			weights[i] = r.Range(1, 4)
		}
	}
	cw, ch := w, h // generator's guess of the current view size (hint only)
	for i := 0; i < n; i++ {
		k := kinds[r.Weighted(weights)]
		op := Op17{K: k, A: r.Intn(3), C: r.Intn(4)}
		if r.Chance(1, 2) {
			op.A = 0
		}
		switch k {
		case "crop":
			op.X, op.Y = r.Intn(cw), r.Intn(ch)
			op.W, op.H = r.Range(1, cw-op.X), r.Range(1, ch-op.Y)
			switch r.Intn(8) {
			case 0: // negative origin
				if r.Bool() {
					op.X = -r.Range(1, 3)
				} else {
					op.Y = -r.Range(1, 3)
				}
			case 1: // reaching outside
				if r.Bool() {
					op.W = cw - op.X + r.Range(1, 6)
				} else {
					op.H = ch - op.Y + r.Range(1, 6)
				}
			case 2: // far outside
				op.X = cw + r.Intn(5)
			}
			if op.X >= 0 && op.Y >= 0 && op.X+op.W <= cw && op.Y+op.H <= ch && r.Chance(1, 2) {
				cw, ch = op.W, op.H
				op.C = op.A // replace the view: deep chains
			}
		case "getrow":
			op.Y = r.Intn(ch)
			if r.Chance(1, 6) {
				op.Y = []int{-1, ch, ch + 3}[r.Intn(3)]
			}
			op.B = r.Intn(5)
			op.V = uint64(r.Intn(2))
		case "binarize":
			op.B = r.Intn(2)
			op.V = r.Uint64()
		case "newimg":
			op.W, op.H, op.V, op.Y, op.B = biasedSize(r), biasedSize(r), r.Uint64(), r.Intn(2), r.Intn(6)
		case "newyuv":
			op.W, op.H = biasedSize(r), biasedSize(r)
			vw, vh := r.Range(1, op.W), r.Range(1, op.H)
			op.X, op.Y = r.Intn(op.W-vw+1), r.Intn(op.H-vh+1)
			op.C = r.Intn(4)
			op.A, op.B = vw, vh
			op.V = r.Uint64()
			switch r.Intn(8) {
			case 0:
				op.X = -r.Range(1, 2)
			case 1:
				op.Y = -r.Range(1, 2)
			case 2:
				op.A = op.W - op.X + 1
			}
		case "rotate", "invert":
			if k == "invert" {
				op.B = r.Intn(4)
			}
			if r.Chance(1, 2) {
				op.C = op.A
				if k == "rotate" {
					cw, ch = ch, cw
				}
			}
		}
		add(op)
	}
	return tr
}

func min17(tr *Trace17, class string) *Trace17 {
	test := func(t *Trace17) bool {
		f, _, _ := exec17(t, func(string) {})
		return f != nil && f.class == class
	}
	keep := kit.DDMin(len(tr.Ops), func(idx []int) bool {
		t := &Trace17{}
		for _, i := range idx {
			t.Ops = append(t.Ops, tr.Ops[i])
		}
		return test(t)
	})
	cur := &Trace17{}
	for _, i := range keep {
		cur.Ops = append(cur.Ops, tr.Ops[i])
	}
	for pass := 0; pass < 3; pass++ {
		changed := false
		for i := range cur.Ops {
			for _, p := range []*int{&cur.Ops[i].W, &cur.Ops[i].H, &cur.Ops[i].X, &cur.Ops[i].Y} {
				for _, cand := range []int{0, 1, *p / 2, *p - 8, *p - 1} {
					if cand >= *p || (cand < 0 && *p >= 0) {
						continue
					}
					old := *p
					*p = cand
					if test(cur) {
						changed = true
						break
					}
					*p = old
				}
			}
		}
		if !changed {
			break
		}
	}
	return cur
}

func runTrace17(c *kit.Ctx, tr *Trace17, minimise bool) {
	f, _, executed := exec17(tr, func(p string) { c.Count(p, 1) })
	c.Steps(int64(executed))
	c.Eval(kit.HashJSON(tr), executed >= 2)
	c.Event(fmt.Sprintf("%x|%d|%v", kit.HashJSON(tr), executed, f != nil))
	if f == nil {
		return
	}
	if minimise {
		tr = min17(tr, f.class)
		if f2, _, _ := exec17(tr, func(string) {}); f2 != nil {
			f = f2
		}
	}
	c.Violate(f.class, f.class, f.detail, tr)
}

// C17 returns the runner spec for property C17.
func C17() *kit.Spec {
	return &kit.Spec{
		Property: "C17",
		Engine:   "histsim",
		Level:    "exploration",
		Rule: "one evaluation = one seeded history over a population of <= 6 luminance views (Go images of five kinds, RGB ints, planar YUV with offsets and horizontal reversal) built by crop / invert / rotate chains, with row and matrix reads into nil / short / exact / long / previously returned buffers, mutation of returned buffers, and both binarisers with cached matrices, reused row arrays, crop and rotate; every live view is compared pixel by pixel with a naive window-on-2-D-array model after every step. " +
			"Every third run enumerates bilevel images of all sizes 1..48 x 1..48 (then 153..200). distinct = distinct history hashes; non-trivial = at least 2 executed steps",
		StateMetric: "distinct operation histories; every step compares all live views with the model",
		Assumptions: []string{
			"a crop is valid iff its origin is non-negative and the rectangle lies inside the underlying data (it may reach beyond the current view); everything else must be an error",
			"luminance of colour pixels: only opaque gray pixels (value kept), fully transparent pixels (white) and the documented (r+2g+b)/4 of RGB ints are modelled; arbitrary colours are not generated for Go images",
			"returned matrices are never modified by the harness (documented contract); returned row buffers are",
			"no scheduler and no fault injector: these objects meet neither (DESIGN.md section 2, caveat 3)",
		},
		Components: map[string]string{
			"luminance sources, InvertedLuminanceSource":              "real",
			"HybridBinarizer, GlobalHistogramBinarizer, BinaryBitmap": "real",
			"window-on-array model, bilevel rule":                     "reference model (harness)",
		},
		FaultKinds:  []string{},
		SimTimeNote: "none: no timers; logical steps = executed operations",
		NumRuns: func(tier string) int {
			if tier == "thorough" {
				return 3 * 48 * 48 * 2 * 300
			}
			return 3 * 48 * 48 * 2 * 3
		},
		Run: func(c *kit.Ctx) {
			watchCtx = c
			tr := gen17(c)
			if c.Run < 3 {
				c.Sample(tr)
			}
			runTrace17(c, tr, true)
		},
		Replay: func(c *kit.Ctx, raw json.RawMessage) {
			tr := &Trace17{}
			if err := json.Unmarshal(raw, tr); err != nil {
				c.Fatal("bad trace: " + err.Error())
				return
			}
			watchCtx = c
			runTrace17(c, tr, false)
		},
		Extra: func(tier string, cov map[string]interface{}) {
			cov["fault_kinds_injected"] = "none (no fault surface)"
		},
	}
}

// Package histsim interprets seeded operation histories over populations of
// mutable, aliasable library objects and compares, after every step, the whole
// population with naive reference models (C16, C17).
package histsim

import (
	"encoding/json"
	"fmt"
	"image"
	"image/color"
	"strings"

	"github.com/makiuchi-d/gozxing"

	"verif/kit"
)

const (
	c16MSlots   = 4
	c16ASlots   = 6
	c16MaxASize = 420
)

// Op16 is one step of a C16 history. Object references are slot numbers; an
// op whose slot is empty or whose arguments are not valid in the current model
// state is skipped, which keeps every sub-list of a history interpretable
// (needed by ddmin).
type Op16 struct {
	K string `json:"k"`
	A int    `json:"a,omitempty"`
	B int    `json:"b,omitempty"`
	C int    `json:"c,omitempty"`
	X int    `json:"x,omitempty"`
	Y int    `json:"y,omitempty"`
	W int    `json:"w,omitempty"`
	H int    `json:"h,omitempty"`
	V uint64 `json:"v,omitempty"`
}

type Trace16 struct {
	Ops []Op16 `json:"ops"`
}

type mModel struct {
	w, h int
	b    [][]bool // [y][x]
}

func newMModel(w, h int) *mModel {
	m := &mModel{w: w, h: h, b: make([][]bool, h)}
	for y := range m.b {
		m.b[y] = make([]bool, w)
	}
	return m
}

type world16 struct {
	m  [c16MSlots]*gozxing.BitMatrix
	mm [c16MSlots]*mModel
	a  [c16ASlots]*gozxing.BitArray
	am [c16ASlots][]bool
	ok [c16ASlots]bool
}

type fail16 struct {
	class  string
	detail string
}

// watchCtx is the run whose library calls are watched for hangs (kit.Enter/Leave).
var watchCtx *kit.Ctx

func enter(class string, trace interface{}, detail string) {
	if watchCtx != nil {
		watchCtx.Enter(func() kit.HangInfo { return kit.HangInfo{Class: class, Key: class, Detail: detail, Trace: trace} })
	}
}

func leave() {
	if watchCtx != nil {
		watchCtx.Leave()
	}
}

var strPairs = [][2]string{{"X ", "  "}, {"1", "0"}, {"##", ".."}, {"x", "_"}, {"X ", "."}, {"#", "  "}, {"[1]", "0"}, {"o", "--"}}
var lineSeps = []string{"\n", "\r\n", "\r", "\n\n"}

func intsEq(a, b []int) bool {
	if (a == nil) != (b == nil) || len(a) != len(b) {
		return false
	}
	for i := range a {
		if a[i] != b[i] {
			return false
		}
	}
	return true
}

func (m *mModel) rect() []int {
	l, t, r, b := m.w, m.h, -1, -1
	for y := 0; y < m.h; y++ {
		for x := 0; x < m.w; x++ {
			if m.b[y][x] {
				if x < l {
					l = x
				}
				if x > r {
					r = x
				}
				if y < t {
					t = y
				}
				if y > b {
					b = y
				}
			}
		}
	}
	if r < 0 {
		return nil
	}
	return []int{l, t, r - l + 1, b - t + 1}
}

func (m *mModel) topLeft() []int {
	for y := 0; y < m.h; y++ {
		for x := 0; x < m.w; x++ {
			if m.b[y][x] {
				return []int{x, y}
			}
		}
	}
	return nil
}

func (m *mModel) bottomRight() []int {
	for y := m.h - 1; y >= 0; y-- {
		for x := m.w - 1; x >= 0; x-- {
			if m.b[y][x] {
				return []int{x, y}
			}
		}
	}
	return nil
}

func (m *mModel) str(set, unset, sep string) string {
	var sb strings.Builder
	for y := 0; y < m.h; y++ {
		for x := 0; x < m.w; x++ {
			if m.b[y][x] {
				sb.WriteString(set)
			} else {
				sb.WriteString(unset)
			}
		}
		sb.WriteString(sep)
	}
	return sb.String()
}

// compareM checks a library matrix against a model completely.
func compareM(lib *gozxing.BitMatrix, m *mModel, who string) *fail16 {
	if lib.GetWidth() != m.w || lib.GetHeight() != m.h {
		return &fail16{"state:dims", fmt.Sprintf("%s: dims lib %dx%d model %dx%d", who, lib.GetWidth(), lib.GetHeight(), m.w, m.h)}
	}
	if lib.GetRowSize() != (m.w+31)/32 {
		return &fail16{"query:rowsize", fmt.Sprintf("%s: GetRowSize %d for width %d", who, lib.GetRowSize(), m.w)}
	}
	for y := 0; y < m.h; y++ {
		for x := 0; x < m.w; x++ {
			if lib.Get(x, y) != m.b[y][x] {
				return &fail16{"state:bits", fmt.Sprintf("%s: bit (%d,%d) lib %v model %v (w=%d h=%d)", who, x, y, lib.Get(x, y), m.b[y][x], m.w, m.h)}
			}
		}
	}
	if r, e := lib.GetEnclosingRectangle(), m.rect(); !intsEq(r, e) {
		return &fail16{"query:rect", fmt.Sprintf("%s: GetEnclosingRectangle lib %v model %v (w=%d h=%d)", who, r, e, m.w, m.h)}
	}
	if r, e := lib.GetTopLeftOnBit(), m.topLeft(); !intsEq(r, e) {
		return &fail16{"query:topleft", fmt.Sprintf("%s: GetTopLeftOnBit lib %v model %v (w=%d h=%d)", who, r, e, m.w, m.h)}
	}
	if r, e := lib.GetBottomRightOnBit(), m.bottomRight(); !intsEq(r, e) {
		return &fail16{"query:bottomright", fmt.Sprintf("%s: GetBottomRightOnBit lib %v model %v (w=%d h=%d)", who, r, e, m.w, m.h)}
	}
	return nil
}

func compareA(lib *gozxing.BitArray, m []bool, who string) *fail16 {
	if lib.GetSize() != len(m) {
		return &fail16{"state:size", fmt.Sprintf("%s: size lib %d model %d", who, lib.GetSize(), len(m))}
	}
	if lib.GetSizeInBytes() != (len(m)+7)/8 {
		return &fail16{"query:sizeinbytes", fmt.Sprintf("%s: GetSizeInBytes %d for size %d", who, lib.GetSizeInBytes(), len(m))}
	}
	words := lib.GetBitArray()
	if len(words)*32 < len(m) {
		return &fail16{"query:getbitarray", fmt.Sprintf("%s: GetBitArray has %d words for size %d", who, len(words), len(m))}
	}
	for i, v := range m {
		if lib.Get(i) != v {
			return &fail16{"state:bits", fmt.Sprintf("%s: bit %d lib %v model %v (size=%d)", who, i, lib.Get(i), v, len(m))}
		}
		if ((words[i/32]>>uint(i%32))&1 == 1) != v {
			return &fail16{"query:getbitarray", fmt.Sprintf("%s: GetBitArray bit %d differs from model", who, i)}
		}
	}
	return nil
}

func (w *world16) compareAll() *fail16 {
	for i := 0; i < c16MSlots; i++ {
		if w.m[i] != nil {
			if f := compareM(w.m[i], w.mm[i], fmt.Sprintf("matrix[%d]", i)); f != nil {
				return f
			}
		}
	}
	for i := 0; i < c16ASlots; i++ {
		if w.ok[i] {
			if f := compareA(w.a[i], w.am[i], fmt.Sprintf("array[%d]", i)); f != nil {
				return f
			}
		}
	}
	return nil
}

func mod(a, n int) int {
	if n <= 0 {
		return 0
	}
	a %= n
	if a < 0 {
		a += n
	}
	return a
}

// exec16 interprets a history; it returns the first failure, the index of the
// failing step, and the number of steps actually executed (not skipped).
func exec16(tr *Trace16, probes func(string)) (f *fail16, at int, executed int) {
	w := &world16{}
	for i, op := range tr.Ops {
		var skipped bool
		enter(op.K+"/hang", tr, fmt.Sprintf("step %d (%s) or the queries after it", i, opString(op)))
		f, skipped = w.step(op, probes)
		if !skipped {
			executed++
			probes("op." + op.K)
		}
		if f == nil && !skipped {
			f = w.compareAll()
			if f != nil {
				f.class = op.K + "/" + f.class
				f.detail = fmt.Sprintf("after step %d (%s): %s", i, opString(op), f.detail)
			}
		}
		leave()
		if f != nil {
			return f, i, executed
		}
	}
	return nil, -1, executed
}

func opString(op Op16) string {
	b, _ := json.Marshal(op)
	return string(b)
}

func (w *world16) step(op Op16, probe func(string)) (f *fail16, skipped bool) {
	defer func() {
		if r := recover(); r != nil {
			f = &fail16{op.K + "/panic", fmt.Sprintf("step %s panicked: %v", opString(op), r)}
			skipped = false
		}
	}()
	fail := func(kind, format string, args ...interface{}) (*fail16, bool) {
		return &fail16{op.K + "/" + kind, fmt.Sprintf("step %s: ", opString(op)) + fmt.Sprintf(format, args...)}, false
	}
	skip := func() (*fail16, bool) { return nil, true }
	ma := mod(op.A, c16MSlots)
	aa := mod(op.A, c16ASlots)
	switch op.K {
	// ---------------------------------------------------------------- matrix creation
	case "mnew", "msquare":
		wd, ht := op.W, op.H
		if op.K == "msquare" {
			ht = wd
		}
		if wd < 1 || ht < 1 || wd > 200 || ht > 200 {
			return skip()
		}
		var m *gozxing.BitMatrix
		var err error
		if op.K == "msquare" {
			m, err = gozxing.NewSquareBitMatrix(wd)
		} else {
			m, err = gozxing.NewBitMatrix(wd, ht)
		}
		if err != nil || m == nil {
			return fail("error", "constructor failed: %v", err)
		}
		w.m[ma], w.mm[ma] = m, newMModel(wd, ht)
	case "mbool", "mstr":
		wd, ht := op.W, op.H
		if wd < 1 || ht < 1 || wd > 200 || ht > 200 {
			return skip()
		}
		r := kit.NewRNG(op.V)
		mm := newMModel(wd, ht)
		den := r.Range(1, 9)
		for y := 0; y < ht; y++ {
			for x := 0; x < wd; x++ {
				mm.b[y][x] = r.Intn(10) < den
			}
		}
		var m *gozxing.BitMatrix
		var err error
		if op.K == "mbool" {
			m, err = gozxing.ParseBoolMapToBitMatrix(mm.b)
		} else {
			p := strPairs[mod(op.X, len(strPairs))]
			sep := lineSeps[mod(op.Y, len(lineSeps))]
			m, err = gozxing.ParseStringToBitMatrix(mm.str(p[0], p[1], sep), p[0], p[1])
		}
		if err != nil || m == nil {
			return fail("error", "constructor failed: %v", err)
		}
		w.m[ma], w.mm[ma] = m, mm
	// ---------------------------------------------------------------- matrix mutation
	case "mrand":
		m, mm := w.m[ma], w.mm[ma]
		if m == nil {
			return skip()
		}
		r := kit.NewRNG(op.V)
		n := r.Range(1, mm.w*mm.h)
		for i := 0; i < n; i++ {
			x, y := r.Intn(mm.w), r.Intn(mm.h)
			switch r.Intn(3) {
			case 0:
				m.Set(x, y)
				mm.b[y][x] = true
			case 1:
				m.Unset(x, y)
				mm.b[y][x] = false
			default:
				m.Flip(x, y)
				mm.b[y][x] = !mm.b[y][x]
			}
		}
	case "mset", "munset", "mflip":
		m, mm := w.m[ma], w.mm[ma]
		if m == nil || op.X < 0 || op.Y < 0 || op.X >= mm.w || op.Y >= mm.h {
			return skip()
		}
		switch op.K {
		case "mset":
			m.Set(op.X, op.Y)
			mm.b[op.Y][op.X] = true
		case "munset":
			m.Unset(op.X, op.Y)
			mm.b[op.Y][op.X] = false
		default:
			m.Flip(op.X, op.Y)
			mm.b[op.Y][op.X] = !mm.b[op.Y][op.X]
		}
	case "mflipall":
		m, mm := w.m[ma], w.mm[ma]
		if m == nil {
			return skip()
		}
		m.FlipAll()
		for y := range mm.b {
			for x := range mm.b[y] {
				mm.b[y][x] = !mm.b[y][x]
			}
		}
	case "mclear":
		m, mm := w.m[ma], w.mm[ma]
		if m == nil {
			return skip()
		}
		m.Clear()
		for y := range mm.b {
			for x := range mm.b[y] {
				mm.b[y][x] = false
			}
		}
	case "mregion":
		m, mm := w.m[ma], w.mm[ma]
		if m == nil {
			return skip()
		}
		valid := op.X >= 0 && op.Y >= 0 && op.W >= 1 && op.H >= 1 && op.X+op.W <= mm.w && op.Y+op.H <= mm.h
		err := m.SetRegion(op.X, op.Y, op.W, op.H)
		if valid != (err == nil) {
			return fail("error", "SetRegion(%d,%d,%d,%d) on %dx%d: err=%v, model valid=%v", op.X, op.Y, op.W, op.H, mm.w, mm.h, err, valid)
		}
		if valid {
			for y := op.Y; y < op.Y+op.H; y++ {
				for x := op.X; x < op.X+op.W; x++ {
					mm.b[y][x] = true
				}
			}
		} else {
			probe("probe.setregion_rejected")
		}
	case "mxor":
		mb := mod(op.B, c16MSlots)
		m, mm, o, om := w.m[ma], w.mm[ma], w.m[mb], w.mm[mb]
		if m == nil || o == nil {
			return skip()
		}
		same := mm.w == om.w && mm.h == om.h
		err := m.Xor(o)
		if same != (err == nil) {
			return fail("error", "Xor of %dx%d with %dx%d: err=%v", mm.w, mm.h, om.w, om.h, err)
		}
		if same {
			if ma == mb {
				probe("probe.matrix_xor_self")
			}
			// copy first: om may alias mm
			tmp := make([][]bool, om.h)
			for y := range tmp {
				tmp[y] = append([]bool(nil), om.b[y]...)
			}
			for y := 0; y < mm.h; y++ {
				for x := 0; x < mm.w; x++ {
					mm.b[y][x] = mm.b[y][x] != tmp[y][x]
				}
			}
		}
	case "mrot180":
		m, mm := w.m[ma], w.mm[ma]
		if m == nil {
			return skip()
		}
		if mm.w%32 == 0 {
			probe("probe.rotate180_width_multiple_of_32")
		}
		m.Rotate180()
		n := newMModel(mm.w, mm.h)
		for y := 0; y < mm.h; y++ {
			for x := 0; x < mm.w; x++ {
				n.b[mm.h-1-y][mm.w-1-x] = mm.b[y][x]
			}
		}
		w.mm[ma] = n
	case "mrot90":
		m, mm := w.m[ma], w.mm[ma]
		if m == nil {
			return skip()
		}
		m.Rotate90()
		// counter-clockwise quarter turn: (x,y) -> (y, w-1-x)
		n := newMModel(mm.h, mm.w)
		for y := 0; y < mm.h; y++ {
			for x := 0; x < mm.w; x++ {
				n.b[mm.w-1-x][y] = mm.b[y][x]
			}
		}
		w.mm[ma] = n
	case "msetrow":
		ab := mod(op.B, c16ASlots)
		m, mm := w.m[ma], w.mm[ma]
		// the row may be longer than the matrix is wide (the reusable buffer
		// GetRow hands back is): the first width bits are the row
		if m == nil || !w.ok[ab] || op.Y < 0 || op.Y >= mm.h || len(w.am[ab]) < mm.w {
			return skip()
		}
		if len(w.am[ab]) > mm.w {
			probe("probe.setrow_from_longer_array")
		}
		m.SetRow(op.Y, w.a[ab])
		copy(mm.b[op.Y], w.am[ab][:mm.w])
	// ---------------------------------------------------------------- matrix queries
	case "mget":
		m, mm := w.m[ma], w.mm[ma]
		if m == nil {
			return skip()
		}
		exp := false
		if op.X >= 0 && op.Y >= 0 && op.X < mm.w && op.Y < mm.h {
			exp = mm.b[op.Y][op.X]
		} else {
			probe("probe.get_outside_matrix")
		}
		if g := m.Get(op.X, op.Y); g != exp {
			return fail("value", "Get(%d,%d)=%v model %v (%dx%d)", op.X, op.Y, g, exp, mm.w, mm.h)
		}
		// image view
		c := m.At(op.X, op.Y)
		want := color.Gray{255}
		if exp {
			want = color.Gray{0}
		}
		if c != color.Color(want) {
			return fail("at", "At(%d,%d)=%v model %v", op.X, op.Y, c, want)
		}
		if m.Bounds() != image.Rect(0, 0, mm.w, mm.h) || m.ColorModel() != color.GrayModel {
			return fail("bounds", "Bounds %v / ColorModel for %dx%d", m.Bounds(), mm.w, mm.h)
		}
	case "mgetrow":
		// GetRow(y, row): row is nil (B<0) or an array of the population; the
		// returned array is installed in slot C when it is a new object.
		m, mm := w.m[ma], w.mm[ma]
		if m == nil || op.Y < 0 || op.Y >= mm.h {
			return skip()
		}
		var in *gozxing.BitArray
		ab := -1
		if op.B >= 0 {
			ab = mod(op.B, c16ASlots)
			if !w.ok[ab] {
				ab = -1
			} else {
				in = w.a[ab]
			}
		}
		out := m.GetRow(op.Y, in)
		if out == nil {
			return fail("nil", "GetRow returned nil")
		}
		reuse := in != nil && len(w.am[ab]) >= mm.w
		if reuse && out != in {
			// re-using the caller's array is an economy, not part of what the
			// container holds: a fresh array is judged as a fresh array
			probe("probe.getrow_did_not_reuse_a_sufficient_array")
			reuse = false
			in = nil
		}
		if reuse {
			if len(w.am[ab]) > mm.w {
				probe("probe.getrow_into_longer_array")
			} else {
				probe("probe.getrow_into_exact_array")
			}
			row := make([]bool, len(w.am[ab]))
			copy(row, mm.b[op.Y])
			w.am[ab] = row
		} else {
			if in != nil {
				probe("probe.getrow_into_short_array")
				if out == in {
					// grown in place? then it must hold the row now
					if out.GetSize() < mm.w {
						return fail("identity", "GetRow returned the caller's array although it is too short for the row (size %d, width %d)", out.GetSize(), mm.w)
					}
					row := make([]bool, out.GetSize())
					copy(row, mm.b[op.Y])
					w.am[ab] = row
					break
				}
			}
			ac := mod(op.C, c16ASlots)
			w.a[ac] = out
			w.am[ac] = append([]bool(nil), mm.b[op.Y]...)
			w.ok[ac] = true
		}
	case "mstring":
		m, mm := w.m[ma], w.mm[ma]
		if m == nil {
			return skip()
		}
		p := strPairs[mod(op.X, len(strPairs))]
		sep := lineSeps[mod(op.Y, len(lineSeps))]
		if g, e := m.String(), mm.str("X ", "  ", "\n"); g != e {
			return fail("string", "String() differs from model (%dx%d)", mm.w, mm.h)
		}
		if g, e := m.ToString(p[0], p[1]), mm.str(p[0], p[1], "\n"); g != e {
			return fail("string", "ToString(%q,%q) differs from model (%dx%d)", p[0], p[1], mm.w, mm.h)
		}
		s := m.ToStringWithLineSeparator(p[0], p[1], sep)
		if e := mm.str(p[0], p[1], sep); s != e {
			return fail("string", "ToStringWithLineSeparator(%q,%q,%q) differs from model (%dx%d)", p[0], p[1], sep, mm.w, mm.h)
		}
		back, err := gozxing.ParseStringToBitMatrix(s, p[0], p[1])
		if err != nil || back == nil {
			return fail("parse", "Parse(ToString(m)) failed: %v", err)
		}
		if f := compareM(back, mm, "Parse(ToString(m))"); f != nil {
			return fail("parse", "%s", f.detail)
		}
	// ---------------------------------------------------------------- array creation
	case "anew":
		if op.W < 0 || op.W > c16MaxASize {
			return skip()
		}
		if op.W == 0 {
			probe("probe.array_size_0")
		}
		w.a[aa], w.am[aa], w.ok[aa] = gozxing.NewBitArray(op.W), make([]bool, op.W), true
	case "aempty":
		w.a[aa], w.am[aa], w.ok[aa] = gozxing.NewEmptyBitArray(), []bool{}, true
	// ---------------------------------------------------------------- array mutation
	case "arand":
		if !w.ok[aa] || len(w.am[aa]) == 0 {
			return skip()
		}
		r := kit.NewRNG(op.V)
		n := r.Range(1, len(w.am[aa]))
		for i := 0; i < n; i++ {
			j := r.Intn(len(w.am[aa]))
			if r.Bool() {
				w.a[aa].Set(j)
				w.am[aa][j] = true
			} else {
				w.a[aa].Flip(j)
				w.am[aa][j] = !w.am[aa][j]
			}
		}
	case "aset", "aflip":
		if !w.ok[aa] || op.X < 0 || op.X >= len(w.am[aa]) {
			return skip()
		}
		if op.K == "aset" {
			w.a[aa].Set(op.X)
			w.am[aa][op.X] = true
		} else {
			w.a[aa].Flip(op.X)
			w.am[aa][op.X] = !w.am[aa][op.X]
		}
	case "abulk":
		// word-aligned; bits at or beyond size are not part of the container
		// and are passed as zero (in-range argument)
		n := len(w.am[aa])
		if !w.ok[aa] || op.X < 0 || op.X%32 != 0 || op.X >= n {
			return skip()
		}
		v := uint32(op.V)
		if n-op.X < 32 {
			v &= (1 << uint(n-op.X)) - 1
		}
		w.a[aa].SetBulk(op.X, v)
		for j := 0; j < 32 && op.X+j < n; j++ {
			w.am[aa][op.X+j] = (v>>uint(j))&1 == 1
		}
	case "arange":
		if !w.ok[aa] {
			return skip()
		}
		n := len(w.am[aa])
		valid := !(op.Y < op.X || op.X < 0 || op.Y > n)
		err := w.a[aa].SetRange(op.X, op.Y)
		if valid != (err == nil) {
			return fail("error", "SetRange(%d,%d) size %d: err=%v", op.X, op.Y, n, err)
		}
		if valid {
			for j := op.X; j < op.Y; j++ {
				w.am[aa][j] = true
			}
			if op.X == op.Y {
				probe("probe.empty_range")
			}
		}
	case "aclear":
		if !w.ok[aa] {
			return skip()
		}
		w.a[aa].Clear()
		for j := range w.am[aa] {
			w.am[aa][j] = false
		}
	case "aappendbit":
		if !w.ok[aa] || len(w.am[aa]) >= c16MaxASize {
			return skip()
		}
		w.a[aa].AppendBit(op.X&1 == 1)
		w.am[aa] = append(w.am[aa], op.X&1 == 1)
	case "aappendbits":
		if !w.ok[aa] || len(w.am[aa])+32 > c16MaxASize {
			return skip()
		}
		valid := op.W >= 0 && op.W <= 32
		err := w.a[aa].AppendBits(int(op.V), op.W)
		if valid != (err == nil) {
			return fail("error", "AppendBits(%d,%d): err=%v", op.V, op.W, err)
		}
		if valid {
			for j := op.W - 1; j >= 0; j-- {
				w.am[aa] = append(w.am[aa], (op.V>>uint(j))&1 == 1)
			}
		}
	case "aappendarr":
		ab := mod(op.B, c16ASlots)
		if !w.ok[aa] || !w.ok[ab] || len(w.am[aa])+len(w.am[ab]) > c16MaxASize {
			return skip()
		}
		if aa == ab {
			probe("probe.array_append_self")
		}
		src := append([]bool(nil), w.am[ab]...)
		w.a[aa].AppendBitArray(w.a[ab])
		w.am[aa] = append(w.am[aa], src...)
	case "axor":
		ab := mod(op.B, c16ASlots)
		if !w.ok[aa] || !w.ok[ab] {
			return skip()
		}
		same := len(w.am[aa]) == len(w.am[ab])
		err := w.a[aa].Xor(w.a[ab])
		if same != (err == nil) {
			return fail("error", "Xor sizes %d,%d: err=%v", len(w.am[aa]), len(w.am[ab]), err)
		}
		if same {
			src := append([]bool(nil), w.am[ab]...)
			for j := range src {
				w.am[aa][j] = w.am[aa][j] != src[j]
			}
		}
	case "areverse":
		if !w.ok[aa] {
			return skip()
		}
		if len(w.am[aa])%32 == 0 {
			probe("probe.reverse_size_multiple_of_32")
		}
		w.a[aa].Reverse()
		n := len(w.am[aa])
		r := make([]bool, n)
		for j := range r {
			r[j] = w.am[aa][n-1-j]
		}
		w.am[aa] = r
	// ---------------------------------------------------------------- array queries
	case "anext":
		if !w.ok[aa] {
			return skip()
		}
		n := len(w.am[aa])
		if op.X < 0 || op.X > n+40 {
			return skip()
		}
		es, eu := n, n
		for j := op.X; j < n; j++ {
			if w.am[aa][j] {
				es = j
				break
			}
		}
		for j := op.X; j < n; j++ {
			if !w.am[aa][j] {
				eu = j
				break
			}
		}
		if op.X >= n {
			probe("probe.next_from_beyond_size")
		}
		if g := w.a[aa].GetNextSet(op.X); g != es {
			return fail("nextset", "GetNextSet(%d)=%d model %d (size %d)", op.X, g, es, n)
		}
		if g := w.a[aa].GetNextUnset(op.X); g != eu {
			return fail("nextunset", "GetNextUnset(%d)=%d model %d (size %d)", op.X, g, eu, n)
		}
	case "aisrange":
		if !w.ok[aa] {
			return skip()
		}
		n := len(w.am[aa])
		valid := !(op.Y < op.X || op.X < 0 || op.Y > n)
		for _, val := range []bool{true, false} {
			g, err := w.a[aa].IsRange(op.X, op.Y, val)
			if valid != (err == nil) {
				return fail("error", "IsRange(%d,%d,%v) size %d: err=%v", op.X, op.Y, val, n, err)
			}
			if valid {
				e := true
				for j := op.X; j < op.Y; j++ {
					if w.am[aa][j] != val {
						e = false
					}
				}
				if g != e {
					return fail("value", "IsRange(%d,%d,%v)=%v model %v (size %d)", op.X, op.Y, val, g, e, n)
				}
			}
		}
	case "atobytes":
		if !w.ok[aa] {
			return skip()
		}
		n := len(w.am[aa])
		if op.X < 0 || op.W < 0 || op.Y < 0 || op.Y > 8 || op.X+8*op.W > n {
			return skip()
		}
		buf := make([]byte, op.Y+op.W+2)
		for j := range buf {
			buf[j] = 0xA5
		}
		w.a[aa].ToBytes(op.X, buf, op.Y, op.W)
		for j := range buf {
			e := byte(0xA5)
			if j >= op.Y && j < op.Y+op.W {
				e = 0
				for k := 0; k < 8; k++ {
					if w.am[aa][op.X+8*(j-op.Y)+k] {
						e |= 1 << uint(7-k)
					}
				}
			}
			if buf[j] != e {
				return fail("value", "ToBytes(%d,buf,%d,%d): buf[%d]=%#x model %#x", op.X, op.Y, op.W, j, buf[j], e)
			}
		}
	case "astring":
		if !w.ok[aa] {
			return skip()
		}
		var sb strings.Builder
		for j, v := range w.am[aa] {
			if j%8 == 0 {
				sb.WriteByte(' ')
			}
			if v {
				sb.WriteByte('X')
			} else {
				sb.WriteByte('.')
			}
		}
		if g := w.a[aa].String(); g != sb.String() {
			return fail("string", "String()=%q model %q", g, sb.String())
		}
	default:
		return skip()
	}
	return nil, false
}

// ---------------------------------------------------------------------- generation

var c16Kinds = []string{
	"mnew", "msquare", "mbool", "mstr", "mrand", "mset", "munset", "mflip", "mflipall", "mclear", "mregion", "mxor",
	"mrot180", "mrot90", "msetrow", "mget", "mgetrow", "mstring",
	"anew", "aempty", "arand", "aset", "aflip", "abulk", "arange", "aclear", "aappendbit", "aappendbits", "aappendarr",
	"axor", "areverse", "anext", "aisrange", "atobytes", "astring",
}

// biased dimension: over-samples 32k-1, 32k, 32k+1
func biasedDim(r *kit.RNG, max int) int {
	if r.Chance(1, 2) {
		k := r.Range(1, max/32)
		d := 32*k + r.Range(-1, 1)
		if d >= 1 && d <= max {
			return d
		}
	}
	return r.Range(1, max)
}

func gen16(c *kit.Ctx) *Trace16 {
	r := c.RNG
	run := c.Run
	// dimension sweep: every (width 1..130, height 1..8) and every array size
	// 0..200 is the primary object of some run
	pw := 1 + run%130
	ph := 1 + (run/130)%8
	pa := run % 201
	// swarm: per-run op weights
	weights := make([]int, len(c16Kinds))
	for i := range weights {
		if r.Chance(7, 10) {
			weights[i] = r.Range(1, 6)
		}
	}
	tr := &Trace16{}
	add := func(op Op16) { tr.Ops = append(tr.Ops, op) }
	// the primary objects
	switch r.Intn(3) {
	case 0:
		add(Op16{K: "mnew", A: 0, W: pw, H: ph})
		add(Op16{K: "mrand", A: 0, V: r.Uint64()})
	case 1:
		add(Op16{K: "mbool", A: 0, W: pw, H: ph, V: r.Uint64()})
	default:
		add(Op16{K: "mstr", A: 0, W: pw, H: ph, V: r.Uint64(), X: r.Intn(8), Y: r.Intn(4)})
	}
	add(Op16{K: "anew", A: 0, W: pa})
	if pa > 0 {
		add(Op16{K: "arand", A: 0, V: r.Uint64()})
	}
	if r.Chance(1, 2) {
		// a second matrix of the same dimensions, so that Xor is meaningful
		add(Op16{K: "mbool", A: 1, W: pw, H: ph, V: r.Uint64()})
	}
	if r.Chance(1, 2) {
		// an array as wide as the matrix, for SetRow / GetRow reuse
		add(Op16{K: "anew", A: 1, W: pw})
		add(Op16{K: "arand", A: 1, V: r.Uint64()})
	}
	n := r.Range(3, 40-len(tr.Ops))
	// sizes the generator believes objects have (only a hint: the
	// interpreter is the authority and skips what is not valid)
	for i := 0; i < n; i++ {
		k := c16Kinds[r.Weighted(weights)]
		op := Op16{K: k, A: r.Intn(8), B: r.Intn(8), C: r.Intn(8)}
		// bias object choice toward the primaries
		if r.Chance(1, 2) {
			op.A = r.Intn(2)
		}
		if r.Chance(1, 2) {
			op.B = r.Intn(2)
		}
		dimW, dimH, asz := pw, ph, pa
		if r.Chance(1, 4) {
			dimW, dimH, asz = 140, 10, 220
		}
		switch k {
		case "mnew", "mbool", "mstr":
			if r.Chance(1, 2) {
				op.W, op.H = pw, ph
			} else if r.Chance(1, 2) {
				op.W, op.H = ph, pw // what a quarter turn produces
			} else {
				op.W, op.H = biasedDim(r, 130), r.Range(1, 8)
			}
			op.V, op.X, op.Y = r.Uint64(), r.Intn(8), r.Intn(4)
		case "msquare":
			op.W = biasedDim(r, 70)
		case "mrand", "arand":
			op.V = r.Uint64()
		case "mset", "munset", "mflip":
			op.X, op.Y = r.Intn(dimW), r.Intn(dimH)
			if r.Chance(1, 3) {
				op.X = edge(r, dimW)
			}
		case "mget":
			op.X, op.Y = r.Range(-2, dimW+1), r.Range(-2, dimH+1)
		case "mregion":
			op.X, op.Y = r.Intn(dimW), r.Intn(dimH)
			op.W, op.H = r.Range(1, dimW-op.X), r.Range(1, dimH-op.Y)
			if r.Chance(1, 8) { // stated error cases
				switch r.Intn(4) {
				case 0:
					op.X = -1
				case 1:
					op.W = 0
				case 2:
					op.W = dimW - op.X + 1
				default:
					op.H = dimH - op.Y + 1
				}
			}
		case "msetrow":
			op.Y = r.Intn(dimH)
		case "mgetrow":
			op.Y = r.Intn(dimH)
			if r.Chance(1, 3) {
				op.B = -1
			}
		case "mstring":
			op.X, op.Y = r.Intn(8), r.Intn(4)
		case "anew":
			switch r.Intn(4) {
			case 0:
				op.W = pw
			case 1:
				op.W = pa
			case 2:
				op.W = r.Range(0, 200)
			default:
				op.W = 32*r.Range(0, 6) + r.Range(-1, 1)
			}
		case "aset", "aflip":
			op.X = r.Intn(asz + 1)
			if r.Chance(1, 3) {
				op.X = edge(r, asz)
			}
		case "abulk":
			op.X = 32 * r.Intn(asz/32+1)
			op.V = r.Uint64()
			if r.Chance(1, 4) {
				op.V = 0xFFFFFFFF
			}
		case "arange", "aisrange":
			op.X = r.Intn(asz + 1)
			op.Y = r.Range(op.X, asz)
			if r.Chance(1, 3) {
				op.X, op.Y = edge(r, asz), edge(r, asz)
				if op.X > op.Y {
					op.X, op.Y = op.Y, op.X
				}
			}
			if r.Chance(1, 10) { // stated error cases
				switch r.Intn(3) {
				case 0:
					op.X = -1
				case 1:
					op.Y = asz + 1 + r.Intn(40)
				default:
					op.X, op.Y = op.Y+1, op.X
				}
			}
		case "aappendbit":
			op.X = r.Intn(2)
		case "aappendbits":
			op.W = r.Range(0, 32)
			op.V = r.Uint64() & 0xFFFFFFFF
			if r.Chance(1, 12) {
				op.W = []int{-1, 33, 40}[r.Intn(3)]
			}
		case "anext":
			op.X = r.Intn(asz + 3)
			if r.Chance(1, 3) {
				op.X = edge(r, asz)
			}
		case "atobytes":
			op.W = r.Intn(asz/8 + 1)
			op.X = r.Intn(asz - 8*op.W + 1)
			op.Y = r.Intn(3)
		}
		add(op)
	}
	return tr
}

// edge returns an index near a word boundary or near n.
func edge(r *kit.RNG, n int) int {
	if n <= 0 {
		return 0
	}
	var v int
	if r.Bool() {
		v = 32*r.Intn(n/32+1) + r.Range(-1, 1)
	} else {
		v = n - 1 - r.Intn(2)
	}
	if v < 0 {
		v = 0
	}
	if v >= n {
		v = n - 1
	}
	return v
}

// ---------------------------------------------------------------------- minimisation

func min16(tr *Trace16, class string) *Trace16 {
	test := func(t *Trace16) bool {
		f, _, _ := exec16(t, func(string) {})
		return f != nil && f.class == class
	}
	keep := kit.DDMin(len(tr.Ops), func(idx []int) bool {
		t := &Trace16{}
		for _, i := range idx {
			t.Ops = append(t.Ops, tr.Ops[i])
		}
		return test(t)
	})
	cur := &Trace16{}
	for _, i := range keep {
		cur.Ops = append(cur.Ops, tr.Ops[i])
	}
	// argument shrinking: smaller numbers, simpler content
	for pass := 0; pass < 3; pass++ {
		changed := false
		for i := range cur.Ops {
			fields := []*int{&cur.Ops[i].W, &cur.Ops[i].H, &cur.Ops[i].X, &cur.Ops[i].Y}
			for _, p := range fields {
				for _, cand := range []int{0, 1, *p / 2, *p - 32, *p - 1} {
					if cand >= *p || cand < 0 {
						continue
					}
					old := *p
					*p = cand
					if test(cur) {
						changed = true
						break
					}
					*p = old
				}
			}
			if cur.Ops[i].V > 1 {
				for _, cand := range []uint64{0, 1} {
					old := cur.Ops[i].V
					cur.Ops[i].V = cand
					if test(cur) {
						changed = true
						break
					}
					cur.Ops[i].V = old
				}
			}
		}
		if !changed {
			break
		}
	}
	return cur
}

// ---------------------------------------------------------------------- spec

func runTrace16(c *kit.Ctx, tr *Trace16, minimise bool) {
	f, at, executed := exec16(tr, func(p string) { c.Count(p, 1) })
	c.Steps(int64(executed))
	c.Eval(kit.HashJSON(tr), executed >= 3)
	c.Event(fmt.Sprintf("%x|%d|%v", kit.HashJSON(tr), executed, f != nil))
	if f == nil {
		return
	}
	_ = at
	if minimise {
		tr = min16(tr, f.class)
		f2, _, _ := exec16(tr, func(string) {})
		if f2 != nil {
			f = f2
		}
	}
	c.Violate(f.class, f.class, f.detail, tr)
}

// C16 returns the runner spec for property C16.
func C16() *kit.Spec {
	return &kit.Spec{
		Property: "C16",
		Engine:   "histsim",
		Level:    "exploration",
		Rule: "one evaluation = one seeded operation history (<= 40 steps) over a population of <= 4 BitMatrix and <= 6 BitArray objects that may be passed to each other; " +
			"run i has primary matrix width 1+i%130, height 1+(i/130)%8 and primary array size i%201, so every dimension is visited; distinct = distinct history hashes; non-trivial = at least 3 steps executed (not skipped)",
		StateMetric: "distinct operation histories (sha256 of the trace); every step compares the complete population with the naive models",
		Assumptions: []string{
			"arguments are in range as the naive model defines range; out-of-range calls are generated only for SetRegion/SetRange/IsRange/AppendBits/Xor where the API returns an error",
			"SetBulk is given a word-aligned index (its documented meaning, bits i..i+31, and the word store it performs agree only there) and zero for bits at or beyond the array size; SetRow is given arrays at least as wide as the matrix (their first width bits are the row)",
			"no scheduler and no fault injector: these containers meet neither (DESIGN.md section 2, caveat 3)",
		},
		Components: map[string]string{
			"gozxing.BitMatrix":         "real",
			"gozxing.BitArray":          "real",
			"BitMatrix image.Image view": "real",
			"naive [][]bool / []bool":   "reference model (harness)",
		},
		FaultKinds:  []string{},
		SimTimeNote: "none: the containers have no timers; logical steps = executed operations",
		NumRuns: func(tier string) int {
			if tier == "thorough" {
				return 130 * 8 * 201 * 60 // 12.5M histories, each (w,h) and size many times
			}
			return 130 * 8 * 201 // 209,040 histories
		},
		Run: func(c *kit.Ctx) {
			watchCtx = c
			tr := gen16(c)
			if c.Run < 3 {
				c.Sample(tr)
			}
			runTrace16(c, tr, true)
		},
		Replay: func(c *kit.Ctx, raw json.RawMessage) {
			tr := &Trace16{}
			if err := json.Unmarshal(raw, tr); err != nil {
				c.Fatal("bad trace: " + err.Error())
				return
			}
			watchCtx = c
			runTrace16(c, tr, false)
		},
		Extra: func(tier string, cov map[string]interface{}) {
			cov["fault_kinds_injected"] = "none (no fault surface)"
			cov["dimensions_swept"] = "matrix widths 1..130 x heights 1..8 and array sizes 0..200, each the primary object of at least one run"
		},
	}
}

#!/usr/bin/env bash
# usage: seed_eval.sh <PROP> <dir-with-patch.diff,demo,meta.json> <name> [tier]
# Confirms a seeded breaking change (applies, suite passes, demo fails with it and passes without),
# runs the property's check against it, records the outcome in /verif/seeded/<name>/, and restores /repo.
set -u
prop="$1"; src="$2"; name="$3"; tier="${4:-quick}"; cprop=${prop:0:3}
export GOFLAGS=-mod=mod GOPROXY=off GOSUMDB=off GOTOOLCHAIN=local
R=${EVAL_REPO:-/tmp/evalrepo}   # a private worktree of /repo: /repo itself is never touched
export VERIF_REPO=$R VERIF_DIR=/tmp/evalverif; mkdir -p $VERIF_DIR; cp /verif/known_findings.json $VERIF_DIR/
cd $R; git checkout -q -- . ; git clean -fdq
dst=/verif/seeded/$name; mkdir -p $dst; cp $src/patch.diff $src/meta.json $dst/ 2>/dev/null; for d in $src/demo*; do cp "$d" "$dst/$(basename $d).txt" 2>/dev/null; done
demo=$(ls $src/demo_test.go 2>/dev/null)
place=$(grep -o -m1 '[a-zA-Z0-9_/.]*zz_demo[a-z0-9_]*_test.go' $src/demo_test.go | head -1)
[ -z "$place" ] && place=zz_demo_test.go
place=${place#/tmp/wt/$prop/}; place=${place#<repo>/}
pkgdir=$(dirname "$place"); pkgdir=${pkgdir#/}; pkgdir=${pkgdir#/}; [ -z "$pkgdir" ] && pkgdir=.; [ -d $R/$pkgdir ] || pkgdir=.
run_demo() { cp $src/demo_test.go $R/$pkgdir/zz_demo_test.go; (cd $R && go test -count=1 -run 'TestDemo' ./$pkgdir 2>&1 | tail -3); r=${PIPESTATUS[0]}; rm -f $R/$pkgdir/zz_demo_test.go; return $r; }
echo "== clean tree: demo"; (cd $R && cp $src/demo_test.go $pkgdir/zz_demo_test.go && go test -count=1 -run 'TestDemo' ./$pkgdir >/tmp/demo_clean.log 2>&1; echo "demo-clean-exit=$?"; rm -f $pkgdir/zz_demo_test.go) | tee $dst/ran.txt
git apply $src/patch.diff || { echo "patch does not apply"; git checkout -- .; exit 3; }
echo "== patched: build+suite" | tee -a $dst/ran.txt
(go build ./... && go test -count=1 ./... 2>&1 | grep -v "^ok\|no test files" | head -5; echo "suite-fail-lines-above(if any)") | tee -a $dst/ran.txt
(cp $src/demo_test.go $pkgdir/zz_demo_test.go && go test -count=1 -run 'TestDemo' ./$pkgdir >/tmp/demo_patched.log 2>&1; echo "demo-patched-exit=$?"; rm -f $pkgdir/zz_demo_test.go) | tee -a $dst/ran.txt
cd /verif
out=$(./check $cprop $tier 2>&1); code=$?
echo "check $cprop $tier exit=$code" | tee -a $dst/ran.txt
echo "$out" | grep "^VIOLATION\|class=" | head -6 | tee -a $dst/ran.txt
git -C $R checkout -- . ; git -C $R clean -fdq
echo "== restored"

#!/usr/bin/env bash
# Determinism self-test (DESIGN.md section 8): every check is run several
# times with the same VERIF_SEED under different worker counts and GOMAXPROCS;
# coverage.event_log_hash (digest of every run's event log) must be identical.
# usage: ./selftest_determinism.sh <property> [seed] [runs-override]
set -u
cd "$(dirname "$0")"
prop="${1:?property}"; seed="${2:-7}"; runs="${3:-}"
export GOFLAGS=-mod=mod GOPROXY=off GOSUMDB=off GOTOOLCHAIN=local VERIF_DIR="$(mktemp -d)"
trap 'rm -rf "$VERIF_DIR"' EXIT
cp known_findings.json "$VERIF_DIR"/ 2>/dev/null
case "$prop" in C16|C17) eng=histsim;; C18) eng=schedsim;; *) eng=chansim;; esac
go build -o "$VERIF_DIR/eng" ./cmd/$eng || exit 2
# schedsim needs the real verif dir for its sources
first=""; rc=0
for cfg in "1 1" "4 1" "16 2" "16 16" "5 4" "32 4"; do
  set -- $cfg
  extra=""; [ -n "$runs" ] && extra="-runs $runs"
  VERIF_SCHEDSIM_SRC="$(pwd)" VERIF_SEED=$seed VERIF_WORKERS=$1 VERIF_GOMAXPROCS=$2 "$VERIF_DIR/eng" -prop "$prop" -tier quick $extra >/dev/null 2>"$VERIF_DIR/err" || { echo "run failed (workers=$1 gomaxprocs=$2)"; cat "$VERIF_DIR/err"; exit 2; }
  h=$(python3 -c "import json;d=json.load(open('$VERIF_DIR/evidence/$prop.json'))['coverage'];print(d['event_log_hash'],d['event_log_runs'])")
  echo "workers=$1 GOMAXPROCS=$2 -> $h"
  [ -z "$first" ] && first="$h"
  [ "$h" = "$first" ] || rc=1
done
[ $rc = 0 ] && echo "DETERMINISTIC property=$prop seed=$seed" || echo "NONDETERMINISTIC property=$prop seed=$seed"
exit $rc

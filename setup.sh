#!/usr/bin/env bash
# Builds everything from files on disk (offline) and warms the Go build cache.
set -eu
cd "$(dirname "$0")"
export GOFLAGS=-mod=mod GOPROXY=off GOSUMDB=off GOTOOLCHAIN=local
cp /repo/go.sum go.sum 2>/dev/null || true
mkdir -p bin evidence replays
for d in cmd/*/; do
  go build -o "bin/$(basename "$d")" "./$d"
done
echo setup ok

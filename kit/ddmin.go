package kit

// DDMin minimises a list of n elements: test(keep) reports whether the
// candidate consisting of the elements with the given (sorted) original
// indices still shows the failure. It returns a 1-minimal index list.
func DDMin(n int, test func(keep []int) bool) []int { return DDMinN(n, 3000, test) }

// DDMinN is DDMin with a bound on the number of candidate tests (a
// deterministic budget: candidates are expensive for some engines). When the
// budget is spent the smallest failing candidate found so far is returned.
func DDMinN(n, maxTests int, test0 func(keep []int) bool) []int {
	tests := 0
	test := func(keep []int) bool {
		if tests >= maxTests {
			return false
		}
		tests++
		return test0(keep)
	}
	return ddmin(n, test)
}

func ddmin(n int, test func(keep []int) bool) []int {
	cur := make([]int, n)
	for i := range cur {
		cur[i] = i
	}
	if n == 0 {
		return cur
	}
	if test(nil) {
		return nil
	}
	gran := 2
	for len(cur) >= 2 {
		chunk := (len(cur) + gran - 1) / gran
		reduced := false
		// try complements (dropping one chunk)
		for start := 0; start < len(cur); start += chunk {
			end := start + chunk
			if end > len(cur) {
				end = len(cur)
			}
			cand := make([]int, 0, len(cur)-(end-start))
			cand = append(cand, cur[:start]...)
			cand = append(cand, cur[end:]...)
			if test(cand) {
				cur = cand
				if gran > 2 {
					gran--
				}
				reduced = true
				break
			}
		}
		if reduced {
			continue
		}
		if gran >= len(cur) {
			break
		}
		gran *= 2
		if gran > len(cur) {
			gran = len(cur)
		}
	}
	if len(cur) == 1 && test(nil) {
		return nil
	}
	return cur
}

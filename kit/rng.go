// Package kit holds what the three simulation engines share: the single PRNG,
// trace/replay files, delta debugging, evidence, known findings and the
// process-sharded runner.
package kit

// RNG is splitmix64. Every random decision of every engine is drawn from an
// RNG derived from (VERIF_SEED, property, run index); nothing else is random.
type RNG struct{ s uint64 }

func mix(z uint64) uint64 {
	z = (z ^ (z >> 30)) * 0xbf58476d1ce4e5b9
	z = (z ^ (z >> 27)) * 0x94d049bb133111eb
	return z ^ (z >> 31)
}

// NewRNG derives an independent stream from a seed and a list of labels.
func NewRNG(seed uint64, labels ...uint64) *RNG {
	s := mix(seed + 0x9e3779b97f4a7c15)
	for _, l := range labels {
		s = mix(s ^ mix(l+0x9e3779b97f4a7c15))
	}
	return &RNG{s}
}

// HashString is FNV-1a 64; used to turn a property id into a stream label.
func HashString(s string) uint64 {
	h := uint64(14695981039346656037)
	for i := 0; i < len(s); i++ {
		h ^= uint64(s[i])
		h *= 1099511628211
	}
	return h
}

func (r *RNG) Uint64() uint64 {
	r.s += 0x9e3779b97f4a7c15
	return mix(r.s)
}

// Intn returns a value in [0,n). n<=0 returns 0.
func (r *RNG) Intn(n int) int {
	if n <= 1 {
		return 0
	}
	return int(r.Uint64() % uint64(n))
}

// Range returns a value in [lo,hi] inclusive.
func (r *RNG) Range(lo, hi int) int {
	if hi <= lo {
		return lo
	}
	return lo + r.Intn(hi-lo+1)
}

func (r *RNG) Bool() bool { return r.Uint64()&1 == 1 }

// Chance is true with probability num/den.
func (r *RNG) Chance(num, den int) bool { return r.Intn(den) < num }

func (r *RNG) Float64() float64 { return float64(r.Uint64()>>11) / (1 << 53) }

// Perm returns a permutation of 0..n-1.
func (r *RNG) Perm(n int) []int {
	p := make([]int, n)
	for i := range p {
		p[i] = i
	}
	for i := n - 1; i > 0; i-- {
		j := r.Intn(i + 1)
		p[i], p[j] = p[j], p[i]
	}
	return p
}

// Sample returns k distinct values of 0..n-1 in increasing order.
func (r *RNG) Sample(n, k int) []int {
	if k > n {
		k = n
	}
	p := r.Perm(n)[:k]
	// insertion sort; k is small
	for i := 1; i < len(p); i++ {
		for j := i; j > 0 && p[j-1] > p[j]; j-- {
			p[j-1], p[j] = p[j], p[j-1]
		}
	}
	return p
}

// Weighted picks an index with probability proportional to w[i].
func (r *RNG) Weighted(w []int) int {
	t := 0
	for _, x := range w {
		t += x
	}
	if t <= 0 {
		return 0
	}
	v := r.Intn(t)
	for i, x := range w {
		if v < x {
			return i
		}
		v -= x
	}
	return len(w) - 1
}

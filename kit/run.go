package kit

import (
	"crypto/sha256"
	"encoding/hex"
	"encoding/json"
	"flag"
	"fmt"
	"io/ioutil"
	"os"
	"os/exec"
	"os/signal"
	"path/filepath"
	"runtime"
	"runtime/debug"
	"sort"
	"strconv"
	"strings"
	"sync"
	"syscall"
	"time"
)

// VerifDir is where MANIFEST, evidence, replays and known findings live.
func VerifDir() string {
	if d := os.Getenv("VERIF_DIR"); d != "" {
		return d
	}
	return "/verif"
}

// Violation is one failed oracle together with the (minimised) trace that
// reproduces it.
type Violation struct {
	Property string          `json:"property"`
	Class    string          `json:"class"`  // which oracle / operation kind failed
	Key      string          `json:"key"`    // identity used by known_findings.json
	Detail   string          `json:"detail"` // human readable
	Run      int             `json:"run"`
	Trace    json.RawMessage `json:"trace"`
}

// ReplayFile is what --replay consumes.
type ReplayFile struct {
	Property  string          `json:"property"`
	Engine    string          `json:"engine"`
	Seed      uint64          `json:"verif_seed"`
	Tier      string          `json:"tier"`
	Run       int             `json:"run"`
	Class     string          `json:"class"`
	Key       string          `json:"key"`
	Detail    string          `json:"detail"`
	Trace     json.RawMessage `json:"trace"`
	ReplayCmd string          `json:"replay_cmd"`
}

// Ctx is handed to an engine for each run; all statistics flow through it.
type Ctx struct {
	Property string
	Tier     string
	Seed     uint64
	Run      int
	RNG      *RNG
	st       *stats
	Replay   bool
}

type stats struct {
	Evaluations int64             `json:"evaluations"`
	Steps       int64             `json:"steps"`
	Runs        int64             `json:"runs"`
	Counters    map[string]int64  `json:"counters"`
	Distinct    []uint64          `json:"distinct"`
	DistinctCap bool              `json:"distinct_capped"`
	Samples     []json.RawMessage `json:"samples"`
	Violations  []Violation       `json:"violations"`
	Notes       map[string]string `json:"notes"`
	Events      map[int]uint64    `json:"events"`
	Sets        map[string][]uint64 `json:"sets"` // named distinct sets (measures of reach), as sorted hash lists
	sets        map[string]map[uint64]struct{}
	dset        map[uint64]struct{}
	AbortedAt   int    `json:"aborted_at"` // run index at which a hang forced the worker to stop, -1 otherwise
	Fatal       string `json:"fatal"`      // harness self-check failure (exit 2)
}

const distinctCap = 3000000

func newStats() *stats {
	return &stats{Counters: map[string]int64{}, dset: map[uint64]struct{}{}, Notes: map[string]string{}, Events: map[int]uint64{}, AbortedAt: -1, sets: map[string]map[uint64]struct{}{}}
}

// Eval counts one evaluated case; h identifies it for the distinct count and
// nontrivial says whether it counts toward distinct_nontrivial.
func (c *Ctx) Eval(h uint64, nontrivial bool) {
	c.st.Evaluations++
	if nontrivial && len(c.st.dset) < distinctCap {
		c.st.dset[h] = struct{}{}
	} else if nontrivial {
		c.st.DistinctCap = true
	}
}

// EvalN counts n evaluations that are not individually hashed (exhaustive
// sweeps); they do not contribute to distinct_nontrivial.
func (c *Ctx) EvalN(n int64) { c.st.Evaluations += n }

// Event folds a string into this run's event-log digest; the digests of all
// runs are combined into coverage.event_log_hash, which must be identical for
// identical VERIF_SEED whatever the worker count or GOMAXPROCS (determinism
// self-test).
func (c *Ctx) Event(s string) {
	c.st.Events[c.Run] = Hash64([]byte(fmt.Sprintf("%x|%s", c.st.Events[c.Run], s)))
}

// Distinct adds a hash to a named distinct set; the sizes of these sets are
// reported in coverage.distinct_sets (a stated measure of reach, e.g. the
// site pairs adjacent across a context switch).
func (c *Ctx) Distinct(name string, h uint64) {
	m := c.st.sets[name]
	if m == nil {
		m = map[uint64]struct{}{}
		c.st.sets[name] = m
	}
	if len(m) < 500000 {
		m[h] = struct{}{}
	}
}

func (c *Ctx) Steps(n int64)            { c.st.Steps += n }
func (c *Ctx) Count(name string, n int) { c.st.Counters[name] += int64(n) }
func (c *Ctx) Note(k, v string)         { c.st.Notes[k] = v }

// Sample stores an example case (a few per worker are kept).
func (c *Ctx) Sample(v interface{}) {
	if len(c.st.Samples) >= 3 {
		return
	}
	b, err := json.Marshal(v)
	if err == nil {
		c.st.Samples = append(c.st.Samples, b)
	}
}

// Violate records a violation.
func (c *Ctx) Violate(class, key, detail string, trace interface{}) {
	b, _ := json.Marshal(trace)
	// at most 20 violations of one key are kept per worker
	n := 0
	for _, v := range c.st.Violations {
		if v.Key == key {
			n++
		}
	}
	c.st.Counters["violations_raised"]++
	if n >= 3 {
		return
	}
	c.st.Violations = append(c.st.Violations, Violation{c.Property, class, key, detail, c.Run, b})
}

// Fatal reports a harness self-check failure: exit 2, never VIOLATION.
func (c *Ctx) Fatal(msg string) {
	if c.st.Fatal == "" {
		c.st.Fatal = msg
	}
}

// Spec describes one property check to the runner.
type Spec struct {
	Property    string
	Engine      string
	Level       string
	Rule        string
	StateMetric string
	Assumptions []string
	Components  map[string]string // component -> "real" | "stub: ..." | "reference model"
	FaultKinds  []string          // counters (prefix "fault.") expected; listed even when zero
	SimTimeNote string
	NumRuns     func(tier string) int
	Run         func(c *Ctx)                         // one seeded run
	Replay      func(c *Ctx, trace json.RawMessage)  // re-execute a stored trace
	ReplayAttempts int                               // extra fresh-process replay attempts before a violation counts as not reproducible
	Workers     int                                  // 0 = NumCPU
	RunTimeout  time.Duration                        // whole-shard watchdog (harness), default by tier
	Extra       func(tier string, ev map[string]interface{}) // extra evidence keys
}

// Hash64 of arbitrary bytes (first 8 bytes of sha256).
func Hash64(b []byte) uint64 {
	s := sha256.Sum256(b)
	var h uint64
	for i := 0; i < 8; i++ {
		h = h<<8 | uint64(s[i])
	}
	return h
}

func HashJSON(v interface{}) uint64 {
	b, _ := json.Marshal(v)
	return Hash64(b)
}

func envSeed() uint64 {
	s := os.Getenv("VERIF_SEED")
	if s == "" {
		return 1
	}
	v, err := strconv.ParseUint(s, 10, 64)
	if err != nil {
		iv, err2 := strconv.ParseInt(s, 10, 64)
		if err2 != nil {
			fmt.Fprintf(os.Stderr, "bad VERIF_SEED %q\n", s)
			os.Exit(2)
		}
		v = uint64(iv)
	}
	return v
}

// Main is the entry point of every engine binary:
//
//	prog <tier>                 run the check (tier quick|thorough)
//	prog -replay <file>         re-execute a replay file
//	prog -worker k/W ...        internal
func Main(specs map[string]*Spec) { os.Exit(MainCode(specs)) }

// MainCode is Main without the exit, for engines that must clean up.
func MainCode(specs map[string]*Spec) int {
	prop := flag.String("prop", "", "property id")
	worker := flag.String("worker", "", "internal: k/W")
	out := flag.String("out", "", "internal: result file")
	from := flag.Int("from", 0, "internal: first run index")
	replay := flag.String("replay", "", "replay file")
	tier := flag.String("tier", "", "quick|thorough")
	nruns := flag.Int("runs", 0, "override number of runs")
	only := flag.Bool("only", false, "internal: execute exactly the run given by -from")
	upto := flag.Int("upto", -1, "internal: stop after this run index")
	flag.Parse()
	if *tier == "" {
		*tier = os.Getenv("VERIF_TIER")
	}
	if *tier == "" {
		*tier = "quick"
	}
	if *replay != "" {
		return doReplay(specs, *replay)
	}
	spec := specs[*prop]
	if spec == nil {
		fmt.Fprintf(os.Stderr, "unknown property %q\n", *prop)
		return 2
	}
	seed := envSeed()
	if *worker != "" {
		return doWorker(spec, *tier, seed, *worker, *from, *out, *nruns, *only, *upto)
	}
	return doMain(spec, *tier, seed, *nruns)
}

func runGuarded(spec *Spec, c *Ctx, f func()) {
	defer func() {
		if r := recover(); r != nil {
			// a panic escaping an engine is a harness bug (engines recover
			// library panics themselves and turn them into oracle input)
			c.Fatal(fmt.Sprintf("harness panic in run %d: %v\n%s", c.Run, r, debug.Stack()))
		}
	}()
	f()
}

func doWorker(spec *Spec, tier string, seed uint64, worker string, from int, out string, nruns int, only bool, upto int) int {
	var k, w int
	fmt.Sscanf(worker, "%d/%d", &k, &w)
	n := spec.NumRuns(tier)
	if nruns > 0 {
		n = nruns
	}
	st := newStats()
	label := HashString(spec.Property)
	// progress file: lets the parent attribute a hard crash of this process
	// (stack overflow, runtime fatal error, kill) to a run
	prog, _ := os.OpenFile(out+".progress", os.O_CREATE|os.O_WRONLY, 0644)
	startMonitor(func(c *Ctx, h HangInfo) {
		c.Violate(h.Class, h.Key, h.Detail, h.Trace)
		st.AbortedAt = c.Run
		os.Exit(writeWorkerResult(st, out))
	})
	first := k
	step := w
	if only {
		first, step, n = from, 1, from+1
	}
	if upto >= 0 && upto+1 < n {
		n = upto + 1
	}
	for run := first; run < n; run += step {
		if run < from {
			continue
		}
		if prog != nil {
			prog.WriteAt([]byte(fmt.Sprintf("%012d", run)), 0)
		}
		c := &Ctx{Property: spec.Property, Tier: tier, Seed: seed, Run: run, RNG: NewRNG(seed, label, uint64(run)), st: st}
		st.Runs++
		runGuarded(spec, c, func() { spec.Run(c) })
		if st.Fatal != "" || st.AbortedAt >= 0 {
			break
		}
	}
	return writeWorkerResult(st, out)
}

func writeWorkerResult(st *stats, out string) int {
	st.Sets = map[string][]uint64{}
	for name, m := range st.sets {
		l := make([]uint64, 0, len(m))
		for h := range m {
			l = append(l, h)
		}
		st.Sets[name] = l
	}
	st.Distinct = make([]uint64, 0, len(st.dset))
	for h := range st.dset {
		st.Distinct = append(st.Distinct, h)
	}
	sort.Slice(st.Distinct, func(i, j int) bool { return st.Distinct[i] < st.Distinct[j] })
	b, _ := json.Marshal(st)
	if err := ioutil.WriteFile(out, b, 0644); err != nil {
		fmt.Fprintln(os.Stderr, err)
		return 2
	}
	return 0
}

// Watchdog for library calls that never return. An engine brackets a library
// call (or a short sequence of them) with Enter/Leave; a monitor goroutine in
// the worker notices a call that has been inside for longer than the limit,
// records it as a violation of class "hang" (the description is supplied by
// the engine), writes the worker's results and ends the process - the stuck
// goroutine dies with it and the parent continues behind this run. The limit
// is a harness watchdog with a wide margin (calls take micro- to
// milliseconds); it is never an input to any decision other than "did not
// return".
type HangInfo struct {
	Class, Key, Detail string
	Trace              interface{}
}

var watch struct {
	mu     sync.Mutex
	active bool
	start  time.Time
	info   func() HangInfo
	c      *Ctx
}

// HangLimit is how long one bracketed library call may take.
var HangLimit = 120 * time.Second // overridable for self-tests via VERIF_HANG_LIMIT_S

func (c *Ctx) Enter(info func() HangInfo) {
	watch.mu.Lock()
	watch.active, watch.start, watch.info, watch.c = true, time.Now(), info, c
	watch.mu.Unlock()
}

func (c *Ctx) Leave() {
	watch.mu.Lock()
	watch.active = false
	watch.mu.Unlock()
}

// startMonitor runs in worker and replay processes. finish is called with the
// violation once a hang is detected and must not return.
func startMonitor(finish func(c *Ctx, h HangInfo)) {
	if v, err := strconv.Atoi(os.Getenv("VERIF_HANG_LIMIT_S")); err == nil && v > 0 {
		HangLimit = time.Duration(v) * time.Second
	}
	go func() {
		for {
			time.Sleep(2 * time.Second)
			watch.mu.Lock()
			if watch.active && time.Since(watch.start) > HangLimit {
				c, info := watch.c, watch.info
				watch.active = false
				watch.mu.Unlock()
				h := info()
				h.Detail = fmt.Sprintf("a library call did not return within %v: %s", HangLimit, h.Detail)
				finish(c, h)
				return
			}
			watch.mu.Unlock()
		}
	}()
}

// Hang marks the current run as hung; the worker stops after this run and the
// parent restarts a fresh worker behind it.
func (c *Ctx) Hang() { c.st.AbortedAt = c.Run }

var (
	childMu  sync.Mutex
	children = map[int]bool{} // pids of worker process groups
)

func startChild(cmd *exec.Cmd) error {
	cmd.SysProcAttr = &syscall.SysProcAttr{Setpgid: true}
	if err := cmd.Start(); err != nil {
		return err
	}
	childMu.Lock()
	children[cmd.Process.Pid] = true
	childMu.Unlock()
	return nil
}

func killChild(cmd *exec.Cmd) {
	if cmd.Process != nil {
		syscall.Kill(-cmd.Process.Pid, syscall.SIGKILL)
	}
}

func doneChild(cmd *exec.Cmd) {
	if cmd.Process != nil {
		childMu.Lock()
		delete(children, cmd.Process.Pid)
		childMu.Unlock()
		// the worker is gone; make sure nothing it started outlives it
		syscall.Kill(-cmd.Process.Pid, syscall.SIGKILL)
	}
}

func installSignalHandler() {
	ch := make(chan os.Signal, 1)
	signal.Notify(ch, syscall.SIGINT, syscall.SIGTERM, syscall.SIGHUP)
	go func() {
		<-ch
		childMu.Lock()
		for pid := range children {
			syscall.Kill(-pid, syscall.SIGKILL)
		}
		childMu.Unlock()
		os.Exit(2)
	}()
}

func doMain(spec *Spec, tier string, seed uint64, nruns int) int {
	installSignalHandler()
	t0 := time.Now()
	fmt.Printf("VERIF_SEED=%d property=%s tier=%s engine=%s\n", seed, spec.Property, tier, spec.Engine)
	w := spec.Workers
	if w <= 0 {
		w = runtime.NumCPU()
	}
	if v, err := strconv.Atoi(os.Getenv("VERIF_WORKERS")); err == nil && v > 0 {
		w = v
	}
	gmp := "2"
	if v := os.Getenv("VERIF_GOMAXPROCS"); v != "" {
		gmp = v
	}
	n := spec.NumRuns(tier)
	if nruns > 0 {
		n = nruns
	}
	if w > n {
		w = n
	}
	if w < 1 {
		w = 1
	}
	tmp, err := ioutil.TempDir("", "verif-"+spec.Property+"-")
	if err != nil {
		fmt.Fprintln(os.Stderr, err)
		return 2
	}
	defer os.RemoveAll(tmp)
	self, _ := os.Executable()
	timeout := spec.RunTimeout
	if timeout == 0 {
		timeout = 30 * time.Minute
		if tier == "thorough" {
			timeout = 5 * time.Hour
		}
	}
	type res struct {
		st  *stats
		err error
	}
	ch := make(chan res, w)
	for k := 0; k < w; k++ {
		go func(k int) {
			total := newStats()
			from := 0
			hangs := 0
			for {
				out := filepath.Join(tmp, fmt.Sprintf("w%d-%d.json", k, from))
				args := []string{"-prop", spec.Property, "-tier", tier, "-worker", fmt.Sprintf("%d/%d", k, w), "-from", strconv.Itoa(from), "-out", out}
				if nruns > 0 {
					args = append(args, "-runs", strconv.Itoa(nruns))
				}
				cmd := exec.Command(self, args...)
				cmd.Stderr = os.Stderr
				cmd.Env = append(os.Environ(), "VERIF_SEED="+strconv.FormatUint(seed, 10), "GOMAXPROCS="+gmp)
				done := make(chan error, 1)
				if err := startChild(cmd); err != nil {
					ch <- res{nil, err}
					return
				}
				go func() { done <- cmd.Wait() }()
				var werr error
				select {
				case werr = <-done:
				case <-time.After(timeout):
					killChild(cmd)
					<-done
					werr = fmt.Errorf("harness watchdog: worker %d exceeded %v", k, timeout)
				}
				doneChild(cmd)
				b, rerr := ioutil.ReadFile(out)
				if rerr != nil {
					// the worker died without a result: attribute the crash to a run
					pb, perr := ioutil.ReadFile(out + ".progress")
					if perr != nil || strings.Contains(fmt.Sprint(werr), "harness watchdog") {
						if werr == nil {
							werr = rerr
						}
						ch <- res{nil, fmt.Errorf("worker %d: %v", k, werr)}
						return
					}
					r, _ := strconv.Atoi(strings.TrimLeft(string(pb), "0"))
					os.Remove(out + ".progress")
					detail, again := rerunSingle(self, spec, tier, seed, k, w, r, tmp, gmp)
					if again != nil {
						mergeStats(total, again) // it completed this time: transient
					} else {
						v := Violation{spec.Property, "crash", "crash", fmt.Sprintf("the process executing run %d died (twice) instead of returning: %s", r, detail), r, json.RawMessage(`{"rerun":true}`)}
						total.Violations = append(total.Violations, v)
						total.Counters["violations_raised"]++
					}
					from = r + 1
					if from >= spec.NumRuns(tier) || (nruns > 0 && from >= nruns) {
						break
					}
					continue
				}
				os.Remove(out + ".progress")
				st := newStats()
				if err := json.Unmarshal(b, st); err != nil {
					ch <- res{nil, err}
					return
				}
				os.Remove(out)
				mergeStats(total, st)
				if st.AbortedAt >= 0 && st.Fatal == "" {
					from = st.AbortedAt + 1
					hangs++
					if hangs >= 3 {
						// repeated hangs: stop this shard, what was found is reported
						total.Counters["shards_stopped_after_repeated_hangs"]++
						break
					}
					continue
				}
				break
			}
			ch <- res{total, nil}
		}(k)
	}
	total := newStats()
	for k := 0; k < w; k++ {
		r := <-ch
		if r.err != nil {
			fmt.Fprintf(os.Stderr, "HARNESS-ERROR %v\n", r.err)
			return 2
		}
		mergeStats(total, r.st)
	}
	if total.Fatal != "" {
		fmt.Fprintf(os.Stderr, "HARNESS-ERROR property=%s %s\n", spec.Property, total.Fatal)
		return 2
	}
	// classify violations
	kf := LoadFindings()
	sort.SliceStable(total.Violations, func(i, j int) bool { return total.Violations[i].Run < total.Violations[j].Run })
	// pinned examples of the listed known findings: replayed on every run
	var pinned []Violation
	for _, e := range kf.Entries {
		if e.Status != "known" || e.Property != spec.Property || len(e.Example) == 0 || spec.Replay == nil {
			continue
		}
		st := newStats()
		c := &Ctx{Property: spec.Property, Tier: tier, Seed: seed, Run: 0, RNG: NewRNG(seed, HashString(spec.Property), 0), st: st, Replay: true}
		ex := e.Example
		runGuarded(spec, c, func() { spec.Replay(c, ex) })
		found := false
		for _, v := range st.Violations {
			if v.Key == e.Key {
				v.Run = -1
				pinned = append(pinned, v)
				found = true
				break
			}
		}
		if !found {
			fmt.Printf("note: the pinned example of the listed finding %s %s does not fail on this tree\n", e.Property, e.Key)
		}
	}
	total.Violations = append(pinned, total.Violations...)
	seenKnown := map[string]bool{}
	seenKey := map[string]bool{}
	var knownLines []string
	nviol := 0
	exit := 0
	unconfirmed := 0
	for _, v := range total.Violations {
		if f := kf.Match(v.Property, v.Key); f != nil {
			if !seenKnown[f.Key] {
				seenKnown[f.Key] = true
				line := fmt.Sprintf("KNOWN-FINDING: property=%s %s", v.Property, f.What)
				fmt.Println(line)
				knownLines = append(knownLines, line)
			}
			continue
		}
		if seenKey[v.Key] {
			continue
		}
		seenKey[v.Key] = true
		nviol++
		if nviol > 8 {
			// further distinct violations are counted, not replay-confirmed
			continue
		}
		path, rerr := writeReplay(spec, tier, seed, v)
		if rerr != nil {
			fmt.Fprintln(os.Stderr, rerr)
			return 2
		}
		// confirm in a fresh process
		var outb []byte
		code := 0
		for attempt := 0; attempt < spec.ReplayAttempts+1 && code != 1; attempt++ {
			cmd := exec.Command(self, "-replay", path)
			cmd.Env = append(os.Environ(), "VERIF_QUIET_REPLAY=1")
			outb, _ = cmd.CombinedOutput()
			code = cmd.ProcessState.ExitCode()
		}
		if code != 1 {
			// does it depend on what the same worker process did before? replay the shard prefix
			if st := rerunShard(self, spec, tier, seed, v.Run%w, w, v.Run, tmp, gmp); st != nil {
				for _, v2 := range st.Violations {
					if v2.Key == v.Key {
						v.Trace = json.RawMessage(fmt.Sprintf(`{"rerun":true,"worker":%d,"of":%d,"upto":%d,"key":%q}`, v.Run%w, w, v.Run, v.Key))
						v.Detail += fmt.Sprintf(" [not reproducible from the single run: it depends on what the same process executed before; the replay re-executes runs %d, %d, ... %d of this seed in one process]", v.Run%w, v.Run%w+w, v.Run)
						path, rerr = writeReplay(spec, tier, seed, v)
						if rerr == nil {
							code = 1
						}
						break
					}
				}
			}
		}
		if code != 1 {
			// never reported as a violation; the run ends with exit 2 unless
			// another violation of this run is confirmed (then that one decides)
			fmt.Fprintf(os.Stderr, "HARNESS-ERROR property=%s violation (class %s, key %s) did not reproduce from %s in a fresh process (exit %d): %s\n%s\n", spec.Property, v.Class, v.Key, path, code, v.Detail, string(outb))
			unconfirmed++
			continue
		}
		fmt.Printf("VIOLATION property=%s replay=%s\n", spec.Property, path)
		fmt.Printf("  class=%s key=%s\n  %s\n", v.Class, v.Key, v.Detail)
		exit = 1
	}
	wall := time.Since(t0).Seconds()
	if err := writeEvidence(spec, tier, seed, total, wall, nviol, knownLines, w); err != nil {
		fmt.Fprintf(os.Stderr, "HARNESS-ERROR evidence: %v\n", err)
		return 2
	}
	fmt.Printf("property=%s tier=%s runs=%d evaluations=%d distinct=%d violations=%d known=%d wall=%.1fs\n", spec.Property, tier, total.Runs, total.Evaluations, len(total.dset), nviol, len(knownLines), wall)
	if exit == 0 && unconfirmed > 0 {
		return 2
	}
	return exit
}

// rerunShard re-executes, in a fresh process, the runs worker k of w executed
// up to and including run upto (a pure function of seed and code). It is the
// replay of last resort for a violation that depends on what the same process
// did before (process-wide state in the library): the single-run trace does
// not reproduce it, the shard prefix does.
func rerunShard(self string, spec *Spec, tier string, seed uint64, k, w, upto int, tmp, gmp string) *stats {
	out := filepath.Join(tmp, fmt.Sprintf("shard-%d-%d-%d.json", k, w, upto))
	os.Remove(out)
	cmd := exec.Command(self, "-prop", spec.Property, "-tier", tier, "-worker", fmt.Sprintf("%d/%d", k, w), "-from", "0", "-upto", strconv.Itoa(upto), "-out", out)
	cmd.Env = append(os.Environ(), "VERIF_SEED="+strconv.FormatUint(seed, 10), "GOMAXPROCS="+gmp)
	done := make(chan error, 1)
	if err := startChild(cmd); err != nil {
		return nil
	}
	go func() { done <- cmd.Wait() }()
	select {
	case <-done:
	case <-time.After(60 * time.Minute):
		killChild(cmd)
		<-done
	}
	doneChild(cmd)
	defer os.Remove(out + ".progress")
	b, err := ioutil.ReadFile(out)
	if err != nil {
		return nil
	}
	st := newStats()
	if json.Unmarshal(b, st) != nil {
		return nil
	}
	os.Remove(out)
	return st
}

// rerunSingle executes exactly one run in a fresh process. It returns the
// stats if the process completed, or a description of how it died.
func rerunSingle(self string, spec *Spec, tier string, seed uint64, k, w, run int, tmp, gmp string) (string, *stats) {
	out := filepath.Join(tmp, fmt.Sprintf("single-%d.json", run))
	os.Remove(out)
	cmd := exec.Command(self, "-prop", spec.Property, "-tier", tier, "-worker", fmt.Sprintf("%d/%d", k, w), "-from", strconv.Itoa(run), "-only", "-out", out)
	var buf strings.Builder
	cmd.Stderr = &buf
	cmd.Env = append(os.Environ(), "VERIF_SEED="+strconv.FormatUint(seed, 10), "GOMAXPROCS="+gmp)
	done := make(chan error, 1)
	if err := startChild(cmd); err != nil {
		return err.Error(), nil
	}
	go func() { done <- cmd.Wait() }()
	var werr error
	select {
	case werr = <-done:
	case <-time.After(20 * time.Minute):
		killChild(cmd)
		<-done
		werr = fmt.Errorf("did not finish within 20 minutes")
	}
	doneChild(cmd)
	defer os.Remove(out + ".progress")
	if b, err := ioutil.ReadFile(out); err == nil {
		st := newStats()
		if json.Unmarshal(b, st) == nil {
			os.Remove(out)
			return "", st
		}
	}
	msg := buf.String()
	// keep the head of the runtime's message (the reason) and drop the goroutine dump
	if i := strings.Index(msg, "\ngoroutine "); i > 0 {
		msg = msg[:i]
	}
	if len(msg) > 600 {
		msg = msg[:600]
	}
	return fmt.Sprintf("%v: %s", werr, strings.TrimSpace(msg)), nil
}

func mergeStats(a, b *stats) {
	a.Evaluations += b.Evaluations
	a.Steps += b.Steps
	a.Runs += b.Runs
	for k, v := range b.Counters {
		a.Counters[k] += v
	}
	for k, v := range b.Notes {
		a.Notes[k] = v
	}
	for k, v := range b.Events {
		a.Events[k] = v
	}
	for name, l := range b.Sets {
		m := a.sets[name]
		if m == nil {
			m = map[uint64]struct{}{}
			a.sets[name] = m
		}
		for _, h := range l {
			m[h] = struct{}{}
		}
	}
	for name, bm := range b.sets {
		m := a.sets[name]
		if m == nil {
			m = map[uint64]struct{}{}
			a.sets[name] = m
		}
		for h := range bm {
			m[h] = struct{}{}
		}
	}
	for _, h := range b.Distinct {
		if len(a.dset) < distinctCap {
			a.dset[h] = struct{}{}
		} else {
			a.DistinctCap = true
		}
	}
	for h := range b.dset {
		if len(a.dset) < distinctCap {
			a.dset[h] = struct{}{}
		} else {
			a.DistinctCap = true
		}
	}
	a.DistinctCap = a.DistinctCap || b.DistinctCap
	for _, s := range b.Samples {
		if len(a.Samples) < 4 {
			a.Samples = append(a.Samples, s)
		}
	}
	a.Violations = append(a.Violations, b.Violations...)
	if a.Fatal == "" {
		a.Fatal = b.Fatal
	}
}

func writeReplay(spec *Spec, tier string, seed uint64, v Violation) (string, error) {
	h := sha256.Sum256(append([]byte(v.Key+"|"), v.Trace...))
	name := fmt.Sprintf("%s-%s.json", spec.Property, hex.EncodeToString(h[:6]))
	dir := filepath.Join(VerifDir(), "replays")
	os.MkdirAll(dir, 0755)
	path := filepath.Join(dir, name)
	rf := ReplayFile{spec.Property, spec.Engine, seed, tier, v.Run, v.Class, v.Key, v.Detail, v.Trace, "./check --replay " + path}
	b, _ := json.MarshalIndent(rf, "", " ")
	return path, ioutil.WriteFile(path, b, 0644)
}

func doReplay(specs map[string]*Spec, path string) int {
	b, err := ioutil.ReadFile(path)
	if err != nil {
		fmt.Fprintln(os.Stderr, err)
		return 2
	}
	var rf ReplayFile
	if err := json.Unmarshal(b, &rf); err != nil {
		fmt.Fprintln(os.Stderr, err)
		return 2
	}
	spec := specs[rf.Property]
	if spec == nil {
		fmt.Fprintf(os.Stderr, "replay: property %s not served by this engine\n", rf.Property)
		return 2
	}
	if strings.Contains(string(rf.Trace), `"rerun"`) {
		// a crash is replayed by re-executing the run (a pure function of seed and code) in a child process
		self, _ := os.Executable()
		tmp, _ := ioutil.TempDir("", "verif-replay-")
		defer os.RemoveAll(tmp)
		var sh struct {
			Worker, Of, Upto int
			Key              string
		}
		json.Unmarshal(rf.Trace, &sh)
		if sh.Of > 0 {
			st := rerunShard(self, spec, rf.Tier, rf.Seed, sh.Worker, sh.Of, sh.Upto, tmp, "2")
			if st != nil {
				for _, v := range st.Violations {
					if v.Key == sh.Key {
						fmt.Printf("VIOLATION property=%s replay=%s\n  class=%s key=%s\n  %s\n", rf.Property, path, v.Class, v.Key, v.Detail)
						return 1
					}
				}
			}
			fmt.Printf("replay of %s: the shard prefix shows no violation with key %s on this tree\n", path, sh.Key)
			return 0
		}
		detail, st := rerunSingle(self, spec, rf.Tier, rf.Seed, 0, 1, rf.Run, tmp, "2")
		if st == nil {
			fmt.Printf("VIOLATION property=%s replay=%s\n  class=crash key=crash\n  %s\n", rf.Property, path, detail)
			return 1
		}
		if len(st.Violations) > 0 {
			v := st.Violations[0]
			fmt.Printf("VIOLATION property=%s replay=%s\n  class=%s key=%s\n  %s\n", rf.Property, path, v.Class, v.Key, v.Detail)
			return 1
		}
		fmt.Printf("replay of %s: run %d completes on this tree\n", path, rf.Run)
		return 0
	}
	st := newStats()
	c := &Ctx{Property: rf.Property, Tier: rf.Tier, Seed: rf.Seed, Run: rf.Run, RNG: NewRNG(rf.Seed, HashString(rf.Property), uint64(rf.Run)), st: st, Replay: true}
	startMonitor(func(c *Ctx, h HangInfo) {
		fmt.Printf("VIOLATION property=%s replay=%s\n  class=%s key=%s\n  %s\n", rf.Property, path, h.Class, h.Key, h.Detail)
		if h.Class == rf.Class {
			os.Exit(1)
		}
		os.Exit(1)
	})
	runGuarded(spec, c, func() { spec.Replay(c, rf.Trace) })
	if st.Fatal != "" {
		fmt.Fprintf(os.Stderr, "HARNESS-ERROR %s\n", st.Fatal)
		return 2
	}
	for _, v := range st.Violations {
		if v.Class == rf.Class {
			fmt.Printf("VIOLATION property=%s replay=%s\n  class=%s key=%s\n  %s\n", rf.Property, path, v.Class, v.Key, v.Detail)
			return 1
		}
	}
	if len(st.Violations) > 0 {
		v := st.Violations[0]
		fmt.Printf("replay of %s shows a different violation class (%s, expected %s): %s\n", path, v.Class, rf.Class, v.Detail)
		return 1
	}
	fmt.Printf("replay of %s: no violation on this tree\n", path)
	return 0
}

func writeEvidence(spec *Spec, tier string, seed uint64, st *stats, wall float64, nviol int, known []string, workers int) error {
	cov := map[string]interface{}{}
	cov["evaluations"] = st.Evaluations
	cov["distinct_nontrivial"] = len(st.dset)
	rule := spec.Rule
	if st.DistinctCap {
		rule += " (distinct count capped at " + strconv.Itoa(distinctCap) + " hashes: a lower bound)"
	}
	cov["rule"] = rule
	samples := make([]json.RawMessage, 0)
	for _, s := range st.Samples {
		samples = append(samples, s)
	}
	if known == nil {
		known = []string{}
	}
	cov["samples"] = samples
	cov["simulated_runs"] = st.Runs
	hours := wall / 3600
	if hours > 0 {
		cov["runs_per_hour"] = int64(float64(st.Runs) / hours)
		cov["seeds_per_hour"] = int64(float64(st.Runs) / hours)
		cov["evaluations_per_hour"] = int64(float64(st.Evaluations) / hours)
	}
	cov["seed_derivation"] = "one PRNG stream per run = splitmix64(VERIF_SEED, fnv(property), run index); a run is one seed"
	cov["logical_steps_simulated"] = st.Steps
	cov["simulated_time"] = spec.SimTimeNote
	faults := map[string]int64{}
	probes := map[string]int64{}
	other := map[string]int64{}
	for _, k := range spec.FaultKinds {
		faults[k] = 0
	}
	for k, v := range st.Counters {
		switch {
		case strings.HasPrefix(k, "fault."):
			faults[strings.TrimPrefix(k, "fault.")] = v
		case strings.HasPrefix(k, "probe."):
			probes[strings.TrimPrefix(k, "probe.")] = v
		default:
			other[k] = v
		}
	}
	cov["fault_kinds_fired"] = faults
	cov["reach_probes"] = probes
	cov["counters"] = other
	cov["distinct_states_measure"] = spec.StateMetric
	if len(st.sets) > 0 {
		ds := map[string]int{}
		for name, m := range st.sets {
			ds[name] = len(m)
		}
		cov["distinct_sets"] = ds
	}
	cov["components"] = spec.Components
	cov["workers"] = workers
	{
		runs := make([]int, 0, len(st.Events))
		for r := range st.Events {
			runs = append(runs, r)
		}
		sort.Ints(runs)
		var sb strings.Builder
		for _, r := range runs {
			fmt.Fprintf(&sb, "%d:%x;", r, st.Events[r])
		}
		cov["event_log_hash"] = fmt.Sprintf("%016x", Hash64([]byte(sb.String())))
		cov["event_log_runs"] = len(runs)
	}
	if len(st.Notes) > 0 {
		cov["notes"] = st.Notes
	}
	cov["known_findings_seen"] = known
	ev := map[string]interface{}{
		"property_id": spec.Property,
		"tier":        tier,
		"seed":        seed,
		"level":       spec.Level,
		"coverage":    cov,
		"assumptions": spec.Assumptions,
		"wall_s":      wall,
		"violations":  nviol,
	}
	if spec.Extra != nil {
		spec.Extra(tier, cov)
	}
	// minimal self-validation against the schema's required keys
	if st.Evaluations < 1 || len(st.dset) < 2 || len(samples) < 1 {
		return fmt.Errorf("evidence would not validate: evaluations=%d distinct=%d samples=%d", st.Evaluations, len(st.dset), len(samples))
	}
	b, _ := json.MarshalIndent(ev, "", " ")
	dir := filepath.Join(VerifDir(), "evidence")
	os.MkdirAll(dir, 0755)
	return ioutil.WriteFile(filepath.Join(dir, spec.Property+".json"), b, 0644)
}

package kit

import (
	"encoding/json"
	"io/ioutil"
	"path/filepath"
)

// Finding is one entry of /verif/known_findings.json. Only entries with
// status "known" suppress a VIOLATION (they are printed as KNOWN-FINDING);
// "fixed" entries are a record and suppress nothing.
type Finding struct {
	Property string `json:"property"`
	Status   string `json:"status"` // "known" | "fixed"
	Key      string `json:"key"`    // violation key this entry matches exactly
	Commit   string `json:"commit,omitempty"`
	What     string `json:"what"`
	Line     string `json:"line,omitempty"`
	// Example is a replayable trace of one concrete failing input of a "known"
	// entry. Every run replays it first, so the KNOWN-FINDING line appears on
	// every run while the defect exists (and not only when the seeded search
	// happens to meet the class again).
	Example json.RawMessage `json:"example,omitempty"`
}

type Findings struct {
	Entries []Finding `json:"entries"`
}

// LoadFindings reads the file; it is never written at run time.
func LoadFindings() *Findings {
	f := &Findings{}
	b, err := ioutil.ReadFile(filepath.Join(VerifDir(), "known_findings.json"))
	if err != nil {
		return f
	}
	json.Unmarshal(b, f)
	return f
}

func (f *Findings) Match(prop, key string) *Finding {
	for i := range f.Entries {
		e := &f.Entries[i]
		if e.Status == "known" && e.Property == prop && e.Key == key {
			return e
		}
	}
	return nil
}

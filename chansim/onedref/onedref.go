// Package onedref is the harness's independent model of the 1-D symbologies'
// check characters and symbol structure (UPC/EAN family, Code 128, Code 93,
// EAN-2/EAN-5 add-ons). Nothing here is read from /repo at run time.
package onedref

import "fmt"

// L patterns (odd parity, left half): widths space,bar,space,bar.
var lPat = [10][4]int{{3, 2, 1, 1}, {2, 2, 2, 1}, {2, 1, 2, 2}, {1, 4, 1, 1}, {1, 1, 3, 2}, {1, 2, 3, 1}, {1, 1, 1, 4}, {1, 3, 1, 2}, {1, 2, 1, 3}, {3, 1, 1, 2}}

// EAN-13 first digit -> parity of the six left digits (1 = G), MSB first.
var ean13Parity = [10]int{0x00, 0x0B, 0x0D, 0x0E, 0x13, 0x19, 0x1C, 0x15, 0x16, 0x1A}

// UPC-E: parity (1 = G/even) for number system 0 by check digit; number
// system 1 uses the complement.
var upceParity0 = [10]int{0x38, 0x34, 0x32, 0x31, 0x2C, 0x26, 0x23, 0x2A, 0x29, 0x25}

// EAN-5 check value -> parity of the five digits (1 = G).
var ean5Parity = [10]int{0x18, 0x14, 0x12, 0x11, 0x0C, 0x06, 0x03, 0x0A, 0x09, 0x05}

func init() {
	// structural validation of the frozen tables: a wrong table is a harness
	// error, never a finding
	if len(Code128Patterns) != 107 {
		panic("onedref: Code 128 table length")
	}
	seen := map[string]bool{}
	for i, p := range Code128Patterns {
		sum := 0
		for _, w := range p {
			if w < 1 || w > 4 {
				panic(fmt.Sprintf("onedref: Code 128 pattern %d width", i))
			}
			sum += w
		}
		want, n := 11, 6
		if i == 106 {
			want, n = 13, 7
		}
		if sum != want || len(p) != n {
			panic(fmt.Sprintf("onedref: Code 128 pattern %d has %d modules in %d runs", i, sum, len(p)))
		}
		if i < 106 {
			// bars even total (Code 128 property: sum of bar widths is even)
			if (p[0]+p[2]+p[4])%2 != 0 {
				panic(fmt.Sprintf("onedref: Code 128 pattern %d bar parity", i))
			}
		}
		k := fmt.Sprint(p)
		if seen[k] {
			panic("onedref: duplicate Code 128 pattern")
		}
		seen[k] = true
	}
	anchors := map[int]string{0: "[2 1 2 2 2 2]", 1: "[2 2 2 1 2 2]", 103: "[2 1 1 4 1 2]", 104: "[2 1 1 2 1 4]", 105: "[2 1 1 2 3 2]", 106: "[2 3 3 1 1 1 2]"}
	for i, a := range anchors {
		if fmt.Sprint(Code128Patterns[i]) != a {
			panic("onedref: Code 128 anchor mismatch")
		}
	}
	if len(Code93Encodings) != 48 || len(Code93Alphabet) != 48 {
		panic("onedref: Code 93 table length")
	}
	s93 := map[int]bool{}
	for i, e := range Code93Encodings {
		if e>>8 != 1 || e&1 != 0 {
			panic(fmt.Sprintf("onedref: Code 93 encoding %d must start with a bar and end with a space", i))
		}
		runs := 1
		for b := 7; b >= 0; b-- {
			if (e>>uint(b))&1 != (e>>uint(b+1))&1 {
				runs++
			}
		}
		if runs != 6 {
			panic(fmt.Sprintf("onedref: Code 93 encoding %d has %d runs", i, runs))
		}
		if s93[e] {
			panic("onedref: duplicate Code 93 encoding")
		}
		s93[e] = true
	}
	if Code93Encodings[0] != 0x114 || Code93Encodings[47] != 0x15E {
		panic("onedref: Code 93 anchor mismatch")
	}
}

// Mod10 is the UPC/EAN check digit of a digit string (without check digit):
// weights 3,1,3,... from the right.
func Mod10(body []int) int {
	sum := 0
	for i, d := range body {
		if (len(body)-1-i)%2 == 0 { // rightmost digit has weight 3
			sum += 3 * d
		} else {
			sum += d
		}
	}
	return (10 - sum%10) % 10
}

// ExpandUPCE turns the 7 digits (number system + 6) of a UPC-E number into
// the 11-digit UPC-A body.
func ExpandUPCE(d []int) []int {
	ns, a := d[0], d[1:7]
	var out []int
	switch a[5] {
	case 0, 1, 2:
		out = []int{ns, a[0], a[1], a[5], 0, 0, 0, 0, a[2], a[3], a[4]}
	case 3:
		out = []int{ns, a[0], a[1], a[2], 0, 0, 0, 0, 0, a[3], a[4]}
	case 4:
		out = []int{ns, a[0], a[1], a[2], a[3], 0, 0, 0, 0, 0, a[4]}
	default:
		out = []int{ns, a[0], a[1], a[2], a[3], a[4], 0, 0, 0, 0, a[5]}
	}
	return out
}

// SuppressUPCA returns the 7-digit UPC-E body of an 11-digit UPC-A body, or
// nil if it is not zero-suppressible.
func SuppressUPCA(a []int) []int {
	if a[0] > 1 {
		return nil
	}
	m, p := a[1:6], a[6:11] // manufacturer, product
	switch {
	case m[2] <= 2 && m[3] == 0 && m[4] == 0 && p[0] == 0 && p[1] == 0:
		return []int{a[0], m[0], m[1], p[2], p[3], p[4], m[2]}
	case m[3] == 0 && m[4] == 0 && p[0] == 0 && p[1] == 0 && p[2] == 0:
		return []int{a[0], m[0], m[1], m[2], p[3], p[4], 3}
	case m[4] == 0 && p[0] == 0 && p[1] == 0 && p[2] == 0 && p[3] == 0:
		return []int{a[0], m[0], m[1], m[2], m[3], p[4], 4}
	case p[0] == 0 && p[1] == 0 && p[2] == 0 && p[3] == 0 && p[4] >= 5:
		return []int{a[0], m[0], m[1], m[2], m[3], m[4], p[4]}
	}
	return nil
}

// UPCECheck is the check digit of a 7-digit UPC-E body: mod-10 of the
// expanded UPC-A number.
func UPCECheck(d []int) int { return Mod10(ExpandUPCE(d)) }

// Row is a sequence of module colours, true = bar.
type Row []bool

func (r *Row) runs(first bool, widths ...int) {
	c := first
	for _, w := range widths {
		for i := 0; i < w; i++ {
			*r = append(*r, c)
		}
		c = !c
	}
}

func (r *Row) digit(d int, g bool, right bool) {
	p := lPat[d]
	switch {
	case right: // R: same widths as L, colours inverted (starts with a bar)
		r.runs(true, p[0], p[1], p[2], p[3])
	case g: // G: R mirrored = widths reversed, starts with a space
		r.runs(false, p[3], p[2], p[1], p[0])
	default:
		r.runs(false, p[0], p[1], p[2], p[3])
	}
}

// EAN13 builds the 95 modules for 13 digits (check digit is NOT recomputed:
// what is given is what is drawn).
func EAN13(d []int) Row {
	var r Row
	r.runs(true, 1, 1, 1)
	par := ean13Parity[d[0]]
	for i := 1; i <= 6; i++ {
		r.digit(d[i], (par>>uint(6-i))&1 == 1, false)
	}
	r.runs(false, 1, 1, 1, 1, 1)
	for i := 7; i <= 12; i++ {
		r.digit(d[i], false, true)
	}
	r.runs(true, 1, 1, 1)
	return r
}

// UPCA = EAN-13 with a leading 0.
func UPCA(d []int) Row { return EAN13(append([]int{0}, d...)) }

// EAN8 builds the 67 modules for 8 digits.
func EAN8(d []int) Row {
	var r Row
	r.runs(true, 1, 1, 1)
	for i := 0; i < 4; i++ {
		r.digit(d[i], false, false)
	}
	r.runs(false, 1, 1, 1, 1, 1)
	for i := 4; i < 8; i++ {
		r.digit(d[i], false, true)
	}
	r.runs(true, 1, 1, 1)
	return r
}

// UPCE builds the 51 modules for number system d[0], six digits d[1..6] and
// the check digit d[7] that the parity pattern is to carry.
func UPCE(d []int) Row {
	var r Row
	r.runs(true, 1, 1, 1)
	par := upceParity0[d[7]]
	if d[0] == 1 {
		par ^= 0x3F
	}
	for i := 1; i <= 6; i++ {
		r.digit(d[i], (par>>uint(6-i))&1 == 1, false)
	}
	r.runs(false, 1, 1, 1, 1, 1, 1)
	return r
}

// UPCEWithParity draws six digits with an explicit parity pattern (bit 5 =
// first digit, 1 = G).
func UPCEWithParity(six []int, par int) Row {
	var r Row
	r.runs(true, 1, 1, 1)
	for i := 0; i < 6; i++ {
		r.digit(six[i], (par>>uint(5-i))&1 == 1, false)
	}
	r.runs(false, 1, 1, 1, 1, 1, 1)
	return r
}

// UPCEParityMeaning returns (number system, check digit) a parity pattern
// stands for, or ok=false if it is not one of the 20 valid patterns.
func UPCEParityMeaning(par int) (ns, check int, ok bool) {
	for c, p := range upceParity0 {
		if p == par {
			return 0, c, true
		}
		if p^0x3F == par {
			return 1, c, true
		}
	}
	return 0, 0, false
}

// EAN13ParityMeaning returns the first digit a left-half parity pattern stands for.
func EAN13ParityMeaning(par int) (first int, ok bool) {
	for d, p := range ean13Parity {
		if p == par {
			return d, true
		}
	}
	return 0, false
}

// EAN13WithParity draws 12 digits (positions 2..13) with an explicit parity
// pattern for the left half.
func EAN13WithParity(d12 []int, par int) Row {
	var r Row
	r.runs(true, 1, 1, 1)
	for i := 0; i < 6; i++ {
		r.digit(d12[i], (par>>uint(5-i))&1 == 1, false)
	}
	r.runs(false, 1, 1, 1, 1, 1)
	for i := 6; i < 12; i++ {
		r.digit(d12[i], false, true)
	}
	r.runs(true, 1, 1, 1)
	return r
}

// Addon appends an EAN-2/EAN-5 add-on after gap modules: start 1,1,2 then
// digits separated by 1,1; parity bit (1 = G) MSB first.
func Addon(digits []int, par int) Row {
	var r Row
	r.runs(true, 1, 1, 2)
	n := len(digits)
	for i, d := range digits {
		r.digit(d, (par>>uint(n-1-i))&1 == 1, false)
		if i != n-1 {
			r.runs(false, 1, 1)
		}
	}
	return r
}

// EAN2Parity / EAN5Parity: the parity pattern the value demands.
func EAN2Parity(v int) int { return v % 4 }

func EAN5Check(d []int) int {
	return (3*(d[0]+d[2]+d[4]) + 9*(d[1]+d[3])) % 10
}

func EAN5Parity(d []int) int { return ean5Parity[EAN5Check(d)] }

// EAN5ParityMeaning returns the check value a 5-bit parity pattern encodes.
func EAN5ParityMeaning(par int) (int, bool) {
	for c, p := range ean5Parity {
		if p == par {
			return c, true
		}
	}
	return 0, false
}

// Code128Row renders symbol values (start, data..., check, stop all given).
func Code128Row(vals []int) Row {
	var r Row
	for _, v := range vals {
		r.runs(true, Code128Patterns[v]...)
	}
	return r
}

// Code128Check is (start + sum i*v_i) mod 103 over start and data values.
func Code128Check(vals []int) int {
	sum := vals[0]
	for i := 1; i < len(vals); i++ {
		sum += i * vals[i]
	}
	return sum % 103
}

// Code93Row renders symbol indices (start *, data, C, K, stop *) plus the
// termination bar.
func Code93Row(idx []int) Row {
	var r Row
	for _, v := range idx {
		e := Code93Encodings[v]
		for b := 8; b >= 0; b-- {
			r = append(r, (e>>uint(b))&1 == 1)
		}
	}
	r = append(r, true)
	return r
}

// Code93Check computes the check index over data indices with weights
// cycling 1..maxW from the right.
func Code93Check(data []int, maxW int) int {
	sum, w := 0, 1
	for i := len(data) - 1; i >= 0; i-- {
		sum += data[i] * w
		w++
		if w > maxW {
			w = 1
		}
	}
	return sum % 47
}

// RunsOf converts a row to run lengths starting with the colour of the first module.
func RunsOf(r []bool) (first bool, runs []int) {
	if len(r) == 0 {
		return false, nil
	}
	first = r[0]
	n := 1
	for i := 1; i < len(r); i++ {
		if r[i] == r[i-1] {
			n++
		} else {
			runs = append(runs, n)
			n = 1
		}
	}
	return first, append(runs, n)
}

// ---------------------------------------------------------------- Code 39
//
// Built from the structure of the symbology (ISO/IEC 16388), not from a
// table: value v < 39 has the "two of five" bar pattern of column (v+... ) and
// one wide space chosen by its row; $ / + % have narrow bars and three wide
// spaces. Check character: sum of the values modulo 43.

// Code39Alphabet lists the 43 data characters in value order; 43 is '*'.
const Code39Alphabet = "0123456789ABCDEFGHIJKLMNOPQRSTUVWXYZ-. $/+%"

var code39Bars = [10]string{"00110", "10001", "01001", "11000", "00101", "10100", "01100", "00011", "10010", "01010"} // column 0..9 (digit d)

// code39Elements returns the nine elements (bar, space, bar, ... bar) of the
// character with value v (0..42, 43 = start/stop), true = wide.
func code39Elements(v int) [9]bool {
	var bars, spaces string
	switch {
	case v >= 39 && v <= 42:
		bars = "00000"
		spaces = [4]string{"1110", "1101", "1011", "0111"}[v-39]
	default:
		// rows of ten: "1234567890", "ABCDEFGHIJ", "KLMNOPQRST", "UVWXYZ-. *"
		var row, col int
		switch {
		case v <= 9:
			row, col = 0, v // digit d sits in column d (1..9, 0 last: same pattern index)
		case v == 43:
			row, col = 3, 0 // '*' is the tenth character of the last row
		default:
			k := v - 10 // A = 0
			row, col = 1+k/10, (k+1)%10
		}
		bars = code39Bars[col]
		spaces = [4]string{"0100", "0010", "0001", "1000"}[row]
	}
	var e [9]bool
	for i := 0; i < 5; i++ {
		e[2*i] = bars[i] == '1'
	}
	for i := 0; i < 4; i++ {
		e[2*i+1] = spaces[i] == '1'
	}
	return e
}

// Code39Row draws start, the characters with the given values, stop, with
// narrow elements of one module, wide elements of `wide` modules and a
// one-module gap between characters.
func Code39Row(vals []int, wide int) Row {
	var r Row
	all := append(append([]int{43}, vals...), 43)
	for ci, v := range all {
		e := code39Elements(v)
		for i, w := range e {
			n := 1
			if w {
				n = wide
			}
			for k := 0; k < n; k++ {
				r = append(r, i%2 == 0)
			}
		}
		if ci != len(all)-1 {
			r = append(r, false)
		}
	}
	return r
}

// Code39Check is the optional modulo-43 check character over the data values.
func Code39Check(data []int) int {
	s := 0
	for _, v := range data {
		s += v
	}
	return s % 43
}

// Package gf is the harness's own GF(2^m) and Reed-Solomon reference: no
// tables, nothing read from /repo. Multiplication is carry-less
// shift-and-reduce modulo the primitive polynomial; everything else is built
// on it.
package gf

// Field is GF(2^m) with generator alpha = x (=2) and first consecutive root
// alpha^Base of the Reed-Solomon generator polynomial.
type Field struct {
	Name string
	Prim int // primitive polynomial incl. the x^m term
	Size int // 2^m
	Base int
	exp  []int // built by this package from Mul (never from /repo)
	log  []int
}

func init() {
	for _, f := range All {
		f.build()
	}
}

func (f *Field) build() {
	f.exp = make([]int, 2*f.Size)
	f.log = make([]int, f.Size)
	x := 1
	for i := 0; i < f.Size-1; i++ {
		f.exp[i] = x
		f.log[x] = i
		x = f.Mul(x, 2)
	}
	for i := f.Size - 1; i < 2*f.Size; i++ {
		f.exp[i] = f.exp[i-(f.Size-1)]
	}
}

// mul is table multiplication over tables derived from Mul; used where speed
// matters (parity, syndromes). The exhaustive field check uses Mul itself.
func (f *Field) mul(a, b int) int {
	if a == 0 || b == 0 {
		return 0
	}
	return f.exp[f.log[a]+f.log[b]]
}

// The six fields of the symbologies, from the standards (ISO 18004, 16022, 24778).
var (
	QR256     = &Field{Name: "QR-256", Prim: 0x11D, Size: 256, Base: 0}
	DM256     = &Field{Name: "DataMatrix-256", Prim: 0x12D, Size: 256, Base: 1}
	Aztec16   = &Field{Name: "Aztec-16", Prim: 0x13, Size: 16, Base: 1}
	Aztec64   = &Field{Name: "Aztec-64", Prim: 0x43, Size: 64, Base: 1}
	Aztec1024 = &Field{Name: "Aztec-1024", Prim: 0x409, Size: 1024, Base: 1}
	Aztec4096 = &Field{Name: "Aztec-4096", Prim: 0x1069, Size: 4096, Base: 1}
	All       = []*Field{QR256, DM256, Aztec16, Aztec64, Aztec1024, Aztec4096}
)

func ByName(n string) *Field {
	for _, f := range All {
		if f.Name == n {
			return f
		}
	}
	return nil
}

// Mul multiplies by shift-and-reduce.
func (f *Field) Mul(a, b int) int {
	r := 0
	for b != 0 {
		if b&1 != 0 {
			r ^= a
		}
		b >>= 1
		a <<= 1
		if a&f.Size != 0 {
			a ^= f.Prim
		}
	}
	return r
}

// Pow returns a^e (e >= 0).
func (f *Field) Pow(a, e int) int {
	r := 1
	for e > 0 {
		if e&1 != 0 {
			r = f.Mul(r, a)
		}
		a = f.Mul(a, a)
		e >>= 1
	}
	return r
}

// Inv returns a^(q-2).
func (f *Field) Inv(a int) int { return f.Pow(a, f.Size-2) }

// Alpha returns alpha^e, alpha = 2.
func (f *Field) Alpha(e int) int { return f.exp[e%(f.Size-1)] }

// Generator returns prod_{i=0..r-1} (x - alpha^(i+Base)), highest degree first.
func (f *Field) Generator(r int) []int {
	g := []int{1}
	for i := 0; i < r; i++ {
		root := f.Alpha(i + f.Base)
		n := make([]int, len(g)+1)
		for j, c := range g {
			n[j] ^= c
			n[j+1] ^= f.mul(c, root)
		}
		g = n
	}
	return g
}

// Parity returns the r parity symbols of the systematic code for data
// (remainder of data(x)*x^r divided by the generator), highest degree first.
func (f *Field) Parity(data []int, r int) []int {
	g := f.Generator(r)
	rem := make([]int, len(data)+r)
	copy(rem, data)
	for i := 0; i < len(data); i++ {
		c := rem[i]
		if c == 0 {
			continue
		}
		for j := 1; j < len(g); j++ {
			rem[i+j] ^= f.mul(g[j], c)
		}
	}
	return rem[len(data):]
}

// Encode returns data || parity.
func (f *Field) Encode(data []int, r int) []int {
	return append(append([]int(nil), data...), f.Parity(data, r)...)
}

// Syndromes evaluates the word (highest degree first) at alpha^(i+Base), i<r.
func (f *Field) Syndromes(word []int, r int) []int {
	s := make([]int, r)
	for i := 0; i < r; i++ {
		x := f.Alpha(i + f.Base)
		v := 0
		for _, c := range word {
			v = f.mul(v, x) ^ c
		}
		s[i] = v
	}
	return s
}

// SyndromesZero reports whether word is a codeword of the (len(word), len(word)-r) code.
func (f *Field) SyndromesZero(word []int, r int) bool {
	for _, s := range f.Syndromes(word, r) {
		if s != 0 {
			return false
		}
	}
	return true
}

// Package dmref is the harness's independent model of Data Matrix ECC 200
// (ISO/IEC 16022): symbol attribute table, Annex F module placement, region
// mapping, block interleaving and a minimal ASCII sender. Nothing here is read
// from /repo. The attribute table is written down from the standard's table 7
// (as reproduced in many public references) and validated structurally:
// data+ec codewords * 8 <= mapping modules, blocks divide the totals.
package dmref

// Symbol is one row of the ECC 200 attribute table.
type Symbol struct {
	Rows, Cols       int // overall size incl. finder/clock tracks
	Data, EC         int // total data / error-correction codewords
	RegionR, RegionC int // size of one data region (without tracks)
	Blocks           int
}

var Symbols = []Symbol{
	{10, 10, 3, 5, 8, 8, 1},
	{12, 12, 5, 7, 10, 10, 1},
	{14, 14, 8, 10, 12, 12, 1},
	{16, 16, 12, 12, 14, 14, 1},
	{18, 18, 18, 14, 16, 16, 1},
	{20, 20, 22, 18, 18, 18, 1},
	{22, 22, 30, 20, 20, 20, 1},
	{24, 24, 36, 24, 22, 22, 1},
	{26, 26, 44, 28, 24, 24, 1},
	{32, 32, 62, 36, 14, 14, 1},
	{36, 36, 86, 42, 16, 16, 1},
	{40, 40, 114, 48, 18, 18, 1},
	{44, 44, 144, 56, 20, 20, 1},
	{48, 48, 174, 68, 22, 22, 1},
	{52, 52, 204, 84, 24, 24, 2},
	{64, 64, 280, 112, 14, 14, 2},
	{72, 72, 368, 144, 16, 16, 4},
	{80, 80, 456, 192, 18, 18, 4},
	{88, 88, 576, 224, 20, 20, 4},
	{96, 96, 696, 272, 22, 22, 4},
	{104, 104, 816, 336, 24, 24, 6},
	{120, 120, 1050, 408, 18, 18, 6},
	{132, 132, 1304, 496, 20, 20, 8},
	{144, 144, 1558, 620, 22, 22, 10},
	{8, 18, 5, 7, 6, 16, 1},
	{8, 32, 10, 11, 6, 14, 1},
	{12, 26, 16, 14, 10, 24, 1},
	{12, 36, 22, 18, 10, 16, 1},
	{16, 36, 32, 24, 14, 16, 1},
	{16, 48, 49, 28, 14, 22, 1},
}

// MapRows/MapCols: size of the mapping matrix (all data regions side by side).
func (s Symbol) MapRows() int { return (s.Rows / (s.RegionR + 2)) * s.RegionR }
func (s Symbol) MapCols() int { return (s.Cols / (s.RegionC + 2)) * s.RegionC }

// ECPerBlock is the same for every block of a symbol.
func (s Symbol) ECPerBlock() int { return s.EC / s.Blocks }

// DataLen of block b: codewords are dealt round-robin, so the first
// Data%Blocks blocks get one more (144x144: 8 x 156, 2 x 155).
func (s Symbol) DataLen(b int) int {
	n := s.Data / s.Blocks
	if b < s.Data%s.Blocks {
		n++
	}
	return n
}

func Find(rows, cols int) *Symbol {
	for i := range Symbols {
		if Symbols[i].Rows == rows && Symbols[i].Cols == cols {
			return &Symbols[i]
		}
	}
	return nil
}

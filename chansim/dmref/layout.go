package dmref

import "verif/chansim/gf"

// XY is a module position in the full symbol: X column, Y row.
type XY struct{ X, Y int }

// placement[r*ncol+c] = codeword index*8 + (bit-1) with bit 1 = MSB; -1 free, -2 fixed dark, -3 fixed light
func place(nrow, ncol int) []int {
	a := make([]int, nrow*ncol)
	for i := range a {
		a[i] = -1
	}
	module := func(row, col, chr, bit int) {
		if row < 0 {
			row += nrow
			col += 4 - ((nrow + 4) % 8)
		}
		if col < 0 {
			col += ncol
			row += 4 - ((ncol + 4) % 8)
		}
		a[row*ncol+col] = chr*8 + bit - 1
	}
	utah := func(row, col, chr int) {
		module(row-2, col-2, chr, 1)
		module(row-2, col-1, chr, 2)
		module(row-1, col-2, chr, 3)
		module(row-1, col-1, chr, 4)
		module(row-1, col, chr, 5)
		module(row, col-2, chr, 6)
		module(row, col-1, chr, 7)
		module(row, col, chr, 8)
	}
	corner1 := func(chr int) {
		module(nrow-1, 0, chr, 1)
		module(nrow-1, 1, chr, 2)
		module(nrow-1, 2, chr, 3)
		module(0, ncol-2, chr, 4)
		module(0, ncol-1, chr, 5)
		module(1, ncol-1, chr, 6)
		module(2, ncol-1, chr, 7)
		module(3, ncol-1, chr, 8)
	}
	corner2 := func(chr int) {
		module(nrow-3, 0, chr, 1)
		module(nrow-2, 0, chr, 2)
		module(nrow-1, 0, chr, 3)
		module(0, ncol-4, chr, 4)
		module(0, ncol-3, chr, 5)
		module(0, ncol-2, chr, 6)
		module(0, ncol-1, chr, 7)
		module(1, ncol-1, chr, 8)
	}
	corner3 := func(chr int) {
		module(nrow-3, 0, chr, 1)
		module(nrow-2, 0, chr, 2)
		module(nrow-1, 0, chr, 3)
		module(0, ncol-2, chr, 4)
		module(0, ncol-1, chr, 5)
		module(1, ncol-1, chr, 6)
		module(2, ncol-1, chr, 7)
		module(3, ncol-1, chr, 8)
	}
	corner4 := func(chr int) {
		module(nrow-1, 0, chr, 1)
		module(nrow-1, ncol-1, chr, 2)
		module(0, ncol-3, chr, 3)
		module(0, ncol-2, chr, 4)
		module(0, ncol-1, chr, 5)
		module(1, ncol-3, chr, 6)
		module(1, ncol-2, chr, 7)
		module(1, ncol-1, chr, 8)
	}
	chr, row, col := 0, 4, 0
	for {
		if row == nrow && col == 0 {
			corner1(chr)
			chr++
		}
		if row == nrow-2 && col == 0 && ncol%4 != 0 {
			corner2(chr)
			chr++
		}
		if row == nrow-2 && col == 0 && ncol%8 == 4 {
			corner3(chr)
			chr++
		}
		if row == nrow+4 && col == 2 && ncol%8 == 0 {
			corner4(chr)
			chr++
		}
		for {
			if row < nrow && col >= 0 && a[row*ncol+col] == -1 {
				utah(row, col, chr)
				chr++
			}
			row -= 2
			col += 2
			if !(row >= 0 && col < ncol) {
				break
			}
		}
		row++
		col += 3
		for {
			if row >= 0 && col < ncol && a[row*ncol+col] == -1 {
				utah(row, col, chr)
				chr++
			}
			row += 2
			col -= 2
			if !(row < nrow && col >= 0) {
				break
			}
		}
		row += 3
		col++
		if !(row < nrow || col < ncol) {
			break
		}
	}
	if a[nrow*ncol-1] == -1 {
		a[nrow*ncol-1] = -2
		a[nrow*ncol-ncol-2] = -2
		a[nrow*ncol-2] = -3
		a[nrow*ncol-ncol-1] = -3
	}
	return a
}

// Layout of one symbol size.
type Layout struct {
	S   *Symbol
	Pos [][]XY // Pos[codeword][bit] (bit 0 = MSB) in full-symbol coordinates
	pl  []int
}

var layouts = map[*Symbol]*Layout{}

func LayoutOf(s *Symbol) *Layout {
	if l, ok := layouts[s]; ok {
		return l
	}
	nr, nc := s.MapRows(), s.MapCols()
	pl := place(nr, nc)
	l := &Layout{S: s, pl: pl, Pos: make([][]XY, s.Data+s.EC)}
	for i := range l.Pos {
		l.Pos[i] = make([]XY, 8)
	}
	for r := 0; r < nr; r++ {
		for c := 0; c < nc; c++ {
			v := pl[r*nc+c]
			if v >= 0 && v/8 < len(l.Pos) {
				l.Pos[v/8][v%8] = l.mapXY(r, c)
			}
		}
	}
	layouts[s] = l
	return l
}

func (l *Layout) mapXY(r, c int) XY {
	return XY{X: c + 1 + 2*(c/l.S.RegionC), Y: r + 1 + 2*(r/l.S.RegionR)}
}

// BlockOf returns (block, index within block) of stream position p (data
// then ECC). Codewords are dealt to blocks round-robin and the deal simply
// continues from the data into the ECC: for every size but 144x144 the data
// count is a multiple of the block count, so ECC offset k belongs to block
// k mod blocks; for 144x144 (1558 data codewords, 10 blocks) it belongs to
// block (k+8) mod 10.
func (s *Symbol) BlockOf(p int) (block, index int) {
	block = p % s.Blocks
	if p < s.Data {
		return block, p / s.Blocks
	}
	k := p - s.Data
	return block, s.DataLen(block) + k/s.Blocks
}

// StreamPos is the inverse of BlockOf.
func (s *Symbol) StreamPos(block, index int) int {
	dl := s.DataLen(block)
	if index < dl {
		return index*s.Blocks + block
	}
	e := index - dl
	first := (block - s.Data%s.Blocks + s.Blocks) % s.Blocks // ECC offset of this block's first ECC codeword
	return s.Data + first + e*s.Blocks
}

// ReadStream reads all codewords (data then ECC) off a full-symbol matrix.
func (l *Layout) ReadStream(get func(x, y int) bool) []int {
	out := make([]int, len(l.Pos))
	for i, ps := range l.Pos {
		v := 0
		for _, p := range ps {
			v <<= 1
			if get(p.X, p.Y) {
				v |= 1
			}
		}
		out[i] = v
	}
	return out
}

// Blocks splits a stream into per-block words.
func (s *Symbol) SplitBlocks(stream []int) [][]int {
	out := make([][]int, s.Blocks)
	for b := 0; b < s.Blocks; b++ {
		w := make([]int, s.DataLen(b)+s.ECPerBlock())
		for j := range w {
			w[j] = stream[s.StreamPos(b, j)]
		}
		out[b] = w
	}
	return out
}

// BuildSymbol is the minimal reference sender: ASCII encodation (values
// 0..127 as value+1, digit pairs not compacted), 253-state padding.
// altInterleave selects the "ECC offset k -> block k mod blocks" arrangement
// for 144x144 (what the library's writer emitted before the fix).
func BuildSymbol(s *Symbol, text []byte, altInterleave bool) [][]bool {
	if len(text) > s.Data {
		return nil
	}
	data := make([]int, 0, s.Data)
	for _, c := range text {
		if c > 127 {
			return nil
		}
		data = append(data, int(c)+1)
	}
	if len(data) < s.Data {
		data = append(data, 129)
	}
	for len(data) < s.Data {
		pos := len(data) + 1
		r := ((149 * pos) % 253) + 1
		v := 129 + r
		if v > 254 {
			v -= 254
		}
		data = append(data, v)
	}
	stream := make([]int, s.Data+s.EC)
	copy(stream, data)
	for b := 0; b < s.Blocks; b++ {
		var blk []int
		for d := b; d < s.Data; d += s.Blocks {
			blk = append(blk, data[d])
		}
		par := gf.DM256.Parity(blk, s.ECPerBlock())
		for e, c := range par {
			if altInterleave {
				stream[s.Data+b+e*s.Blocks] = c
			} else {
				stream[s.StreamPos(b, len(blk)+e)] = c
			}
		}
	}
	l := LayoutOf(s)
	m := make([][]bool, s.Rows)
	for y := range m {
		m[y] = make([]bool, s.Cols)
	}
	// finder L and clock tracks of every region
	for y := 0; y < s.Rows; y++ {
		for x := 0; x < s.Cols; x++ {
			rx, ry := x%(s.RegionC+2), y%(s.RegionR+2)
			switch {
			case rx == 0: // left solid
				m[y][x] = true
			case ry == s.RegionR+1: // bottom solid
				m[y][x] = true
			case ry == 0: // top clock: dark at even columns
				m[y][x] = rx%2 == 0
			case rx == s.RegionC+1: // right clock: dark at odd rows (counting from the top of the region)
				m[y][x] = ry%2 == 1
			}
		}
	}
	nr, nc := s.MapRows(), s.MapCols()
	for r := 0; r < nr; r++ {
		for c := 0; c < nc; c++ {
			v := l.pl[r*nc+c]
			p := l.mapXY(r, c)
			switch {
			case v == -2:
				m[p.Y][p.X] = true
			case v >= 0:
				m[p.Y][p.X] = (stream[v/8]>>uint(7-v%8))&1 == 1
			}
		}
	}
	return m
}

// Package chansim simulates a sender -> faulty medium -> receiver pipeline:
// the receiver is always real library code, the medium is owned by the
// simulator and applies a seeded, budgeted fault plan, and the oracle is the
// sent message or an independent reference model (C04, C05, C10, C11).
package chansim

import (
	"encoding/json"
	"fmt"
	"sort"
	"time"

	rs "github.com/makiuchi-d/gozxing/common/reedsolomon"

	"verif/chansim/dmref"
	"verif/chansim/gf"
	"verif/chansim/qrref"
	"verif/kit"
)

// libField maps a reference field to the library's field object.
func libField(f *gf.Field) *rs.GenericGF {
	switch f {
	case gf.QR256:
		return rs.GenericGF_QR_CODE_FIELD_256
	case gf.DM256:
		return rs.GenericGF_DATA_MATRIX_FIELD_256
	case gf.Aztec16:
		return rs.GenericGF_AZTEC_PARAM
	case gf.Aztec64:
		return rs.GenericGF_AZTEC_DATA_6
	case gf.Aztec1024:
		return rs.GenericGF_AZTEC_DATA_10
	case gf.Aztec4096:
		return rs.GenericGF_AZTEC_DATA_12
	}
	return nil
}

// Trace04 is one transmission over the codeword channel.
type Trace04 struct {
	Kind   string   `json:"kind"` // "tx" | "field" | "first" | "cache" | "dechist"
	Field  string   `json:"field"`
	K      int      `json:"k,omitempty"`
	R      int      `json:"r,omitempty"`
	Data   []int    `json:"data,omitempty"`
	Errors [][2]int `json:"errors,omitempty"` // (position, non-zero magnitude)
	Seq    []int    `json:"seq,omitempty"`    // cache / dechist history: parity counts asked of one encoder / one decoder
	A      int      `json:"a,omitempty"`      // field job: failing element(s)
	B      int      `json:"b,omitempty"`
}

type fail struct {
	class, detail string
}

// watchCtx is the run whose library calls are watched for hangs (kit.Enter/Leave).
var watchCtx *kit.Ctx

func enter(class, key string, trace interface{}, detail string) {
	if watchCtx != nil {
		watchCtx.Enter(func() kit.HangInfo { return kit.HangInfo{Class: class, Key: key, Detail: detail, Trace: trace} })
	}
}

func leave() {
	if watchCtx != nil {
		watchCtx.Leave()
	}
}

// shape is one (field, k, r) code actually used by a symbology.
type shape struct {
	f    *gf.Field
	k, r int
	why  string
}

// realShapes lists every Reed-Solomon block shape the 2-D symbologies use,
// derived from the harness's own tables.
func realShapes() []shape {
	seen := map[[3]int]bool{}
	var out []shape
	add := func(f *gf.Field, k, r int, why string) {
		fi := 0
		for i, x := range gf.All {
			if x == f {
				fi = i
			}
		}
		key := [3]int{fi, k, r}
		if seen[key] || k < 1 || r < 1 || k+r > f.Size-1 {
			return
		}
		seen[key] = true
		out = append(out, shape{f, k, r, why})
	}
	for v := 1; v <= 40; v++ {
		for l := 0; l < 4; l++ {
			b := qrref.BlocksOf(v, l)
			add(gf.QR256, b.ShortData, b.EC, fmt.Sprintf("QR v%d-%s short block", v, qrref.LevelNames[l]))
			if b.NumShort < b.N {
				add(gf.QR256, b.ShortData+1, b.EC, fmt.Sprintf("QR v%d-%s long block", v, qrref.LevelNames[l]))
			}
		}
	}
	for _, s := range dmref.Symbols {
		for b := 0; b < s.Blocks; b++ {
			add(gf.DM256, s.DataLen(b), s.ECPerBlock(), fmt.Sprintf("DataMatrix %dx%d block", s.Rows, s.Cols))
		}
	}
	// Aztec mode messages
	add(gf.Aztec16, 2, 5, "Aztec compact mode message")
	add(gf.Aztec16, 4, 6, "Aztec full mode message")
	// Aztec data: total words per layer count; data share 1/4, 1/2, ~3/4, max
	az := func(layers int, compact bool) {
		base := 112
		if compact {
			base = 88
		}
		bits := (base + 16*layers) * layers
		var f *gf.Field
		var ws int
		switch {
		case layers <= 2:
			f, ws = gf.Aztec64, 6
		case layers <= 8:
			f, ws = gf.DM256, 8
		case layers <= 22:
			f, ws = gf.Aztec1024, 10
		default:
			f, ws = gf.Aztec4096, 12
		}
		n := bits / ws
		for _, k := range []int{1, n / 4, n / 2, n - n/4, n - 3} {
			if k >= 1 && n-k >= 1 {
				add(f, k, n-k, fmt.Sprintf("Aztec %d layers compact=%v", layers, compact))
			}
		}
	}
	for l := 1; l <= 4; l++ {
		az(l, true)
	}
	for l := 1; l <= 32; l++ {
		az(l, false)
	}
	// full-length codes (Chien search bound) in every field
	for _, f := range gf.All {
		n := f.Size - 1
		for _, r := range []int{1, 2, 3, 4, 7, 8, n / 2, n - 1} {
			if r >= 1 && n-r >= 1 {
				add(f, n-r, r, "full-length code")
			}
		}
	}
	return out
}

type job04 struct {
	kind  string // field | singles | doubles | seeded | cache
	field *gf.Field
	sh    shape
	n     int // number of seeded transmissions
}

func jobs04(tier string) []job04 {
	var j []job04
	// which accessor of a field object is called FIRST in a process must not
	// matter (tables built on first use): every accessor gets to be the first
	// call on every field in some worker process. These light jobs come
	// before everything else; job i and job i+16 concern different fields.
	for op := 0; op < 4; op++ {
		for _, f := range gf.All {
			j = append(j, job04{kind: "first", field: f, n: op})
		}
	}
	for _, f := range gf.All {
		j = append(j, job04{kind: "field", field: f})
	}
	shapes := realShapes()
	// exhaustive single errors: every position x every magnitude (|F|<=256),
	// or x a magnitude sample for the two large fields
	for _, s := range shapes {
		j = append(j, job04{kind: "singles", sh: s})
	}
	// exhaustive double-error position pairs for short codes
	maxN := 40
	for _, f := range gf.All {
		for n := 3; n <= maxN && n <= f.Size-1; n++ {
			rset := []int{4, 5, n - 1}
			if tier == "thorough" {
				rset = nil
				for r := 4; r <= n-1; r++ {
					rset = append(rset, r)
				}
			}
			seen := map[int]bool{}
			for _, r := range rset {
				if r >= 4 && n-r >= 1 && !seen[r] {
					seen[r] = true
					j = append(j, job04{kind: "doubles", sh: shape{f, n - r, r, "short code"}})
				}
			}
		}
	}
	// seeded multi-error transmissions on every real shape
	per := 200
	if tier == "thorough" {
		per = 6000
	}
	for _, s := range shapes {
		j = append(j, job04{kind: "seeded", sh: s, n: per})
	}
	// seeded random shapes
	nr := 400
	if tier == "thorough" {
		nr = 20000
	}
	for i := 0; i < nr; i++ {
		j = append(j, job04{kind: "seeded", n: 40})
	}
	// encoder-instance histories
	nc := 60
	if tier == "thorough" {
		nc = 2000
	}
	for i := 0; i < nc; i++ {
		j = append(j, job04{kind: "cache"})
		j = append(j, job04{kind: "dechist"})
	}
	return j
}

// prepared is a word that went through the real encoder and was verified
// against the reference encoder.
type prepared struct {
	rf   *gf.Field
	lf   *rs.GenericGF
	k, r int
	sent []int
}

// prepare runs the sender side: real encoder, checked against the reference.
func prepare(tr *Trace04, probe func(string)) (pw *prepared, f *fail) {
	rf := gf.ByName(tr.Field)
	if rf == nil || tr.K < 1 || tr.R < 1 || tr.K+tr.R > rf.Size-1 || len(tr.Data) != tr.K {
		return nil, nil
	}
	lf := libField(rf)
	n := tr.K + tr.R
	defer func() {
		if r := recover(); r != nil {
			pw, f = nil, &fail{"enc/panic", fmt.Sprintf("panic: %v", r)}
		}
	}()
	for _, d := range tr.Data {
		if d < 0 || d >= rf.Size {
			return nil, nil
		}
	}
	word := make([]int, n)
	copy(word, tr.Data)
	// whatever the parity area holds before the call is none of the
	// encoder's business: it is pre-filled with junk (a re-used buffer)
	junk := kit.NewRNG(uint64(tr.K)*31+uint64(tr.R), uint64(len(tr.Data)))
	for i := tr.K; i < n; i++ {
		word[i] = junk.Intn(rf.Size)
	}
	enter("enc/hang", "enc/hang/"+tr.Field, tr, "ReedSolomonEncoder.Encode")
	err := rs.NewReedSolomonEncoder(lf).Encode(word, tr.R)
	leave()
	if err != nil {
		return nil, &fail{"enc/error", fmt.Sprintf("Encode(k=%d,r=%d) returned %v", tr.K, tr.R, err)}
	}
	for i := 0; i < tr.K; i++ {
		if word[i] != tr.Data[i] {
			return nil, &fail{"enc/data_changed", fmt.Sprintf("Encode changed data symbol %d: %d -> %d", i, tr.Data[i], word[i])}
		}
	}
	ref := rf.Parity(tr.Data, tr.R)
	if ref[0] == 0 {
		probe("probe.parity_with_leading_zero")
	}
	for i := 0; i < tr.R; i++ {
		if word[tr.K+i] != ref[i] {
			return nil, &fail{"enc/parity", fmt.Sprintf("parity symbol %d is %d, reference %d (field %s k=%d r=%d)", i, word[tr.K+i], ref[i], tr.Field, tr.K, tr.R)}
		}
	}
	if !rf.SyndromesZero(word, tr.R) {
		return nil, &fail{"enc/syndromes", "encoded word has non-zero reference syndromes"}
	}
	return &prepared{rf, lf, tr.K, tr.R, word}, nil
}

// attempt sends the prepared word through the medium with the given error
// set and through the real decoder.
func (pw *prepared) attempt(errors [][2]int, probe func(string)) (f *fail) {
	n := pw.k + pw.r
	defer func() {
		if r := recover(); r != nil {
			f = &fail{"dec/panic", fmt.Sprintf("panic: %v", r)}
		}
	}()
	word := append([]int(nil), pw.sent...)
	seen := map[int]bool{}
	nerr := 0
	for _, e := range errors {
		p, m := e[0], e[1]
		if p < 0 || p >= n || m <= 0 || m >= pw.rf.Size || seen[p] {
			continue
		}
		seen[p] = true
		word[p] ^= m
		nerr++
		if p == 0 {
			probe("probe.error_at_position_0")
			if n == pw.rf.Size-1 {
				probe("probe.error_at_position_0_of_full_length_code")
			}
		}
		if p == n-1 {
			probe("probe.error_at_last_position")
		}
	}
	if nerr > pw.r/2 {
		return nil // beyond the budget: the property promises nothing
	}
	switch {
	case nerr == 0:
		probe("fault.none(control)")
	case nerr == pw.r/2:
		probe("fault.symbol_errors_exactly_t")
	default:
		probe("fault.symbol_errors_below_t")
	}
	enter("dec/hang", "dec/hang/"+pw.rf.Name, &Trace04{Kind: "tx", Field: pw.rf.Name, K: pw.k, R: pw.r, Data: pw.sent[:pw.k], Errors: errors}, "ReedSolomonDecoder.Decode")
	err := rs.NewReedSolomonDecoder(pw.lf).Decode(word, pw.r)
	leave()
	if err != nil {
		if nerr == 0 {
			return &fail{"dec/passthrough", fmt.Sprintf("undamaged word rejected: %v", err)}
		}
		return &fail{"dec/error", fmt.Sprintf("%d errors (t=%d) in %s (k=%d,r=%d) not corrected: %v", nerr, pw.r/2, pw.rf.Name, pw.k, pw.r, err)}
	}
	for i := range word {
		if word[i] != pw.sent[i] {
			if nerr == 0 {
				return &fail{"dec/passthrough", fmt.Sprintf("undamaged word altered at %d", i)}
			}
			return &fail{"dec/miscorrect", fmt.Sprintf("%d errors (t=%d) in %s (k=%d,r=%d): Decode returned nil but symbol %d is %d, sent %d", nerr, pw.r/2, pw.rf.Name, pw.k, pw.r, i, word[i], pw.sent[i])}
		}
	}
	return nil
}

// transmit = prepare + attempt.
func transmit(tr *Trace04, probe func(string)) *fail {
	pw, f := prepare(tr, probe)
	if f != nil || pw == nil {
		return f
	}
	return pw.attempt(tr.Errors, probe)
}

// fieldJob checks the whole field exhaustively against shift-and-reduce.
func fieldJob(c *kit.Ctx, rf *gf.Field) {
	lf := libField(rf)
	bad := func(class string, a, b int, detail string) {
		c.Violate("field/"+class, "field/"+class+"/"+rf.Name, detail, &Trace04{Kind: "field", Field: rf.Name, A: a, B: b})
	}
	defer func() {
		if r := recover(); r != nil {
			bad("panic", 0, 0, fmt.Sprintf("panic in field %s: %v", rf.Name, r))
		}
	}()
	q := rf.Size
	if lf.GetSize() != q {
		bad("size", 0, 0, fmt.Sprintf("GetSize %d, expected %d", lf.GetSize(), q))
		return
	}
	if lf.GetGeneratorBase() != rf.Base {
		bad("base", 0, 0, fmt.Sprintf("generator base %d, standard %d", lf.GetGeneratorBase(), rf.Base))
		return
	}
	x := 1
	for i := 0; i < q-1; i++ {
		if lf.Exp(i) != x {
			bad("exp", i, 0, fmt.Sprintf("%s: Exp(%d)=%d, alpha^%d=%d", rf.Name, i, lf.Exp(i), i, x))
			return
		}
		l, err := lf.Log(x)
		if err != nil || l != i {
			bad("log", x, 0, fmt.Sprintf("%s: Log(%d)=%d,%v expected %d", rf.Name, x, l, err, i))
			return
		}
		x = rf.Mul(x, 2)
	}
	if x != 1 {
		c.Fatal("reference field " + rf.Name + ": alpha is not primitive")
		return
	}
	if _, err := lf.Log(0); err == nil {
		bad("log", 0, 0, "Log(0) returned no error")
	}
	if _, err := lf.Inverse(0); err == nil {
		bad("inverse", 0, 0, "Inverse(0) returned no error")
	}
	for a := 0; a < q; a++ {
		if a != 0 {
			inv, err := lf.Inverse(a)
			if err != nil || rf.Mul(a, inv) != 1 || lf.Multiply(a, inv) != 1 {
				bad("inverse", a, 0, fmt.Sprintf("%s: Inverse(%d)=%d,%v; a*inv != 1", rf.Name, a, inv, err))
				return
			}
			l, _ := lf.Log(a)
			if lf.Exp(l) != a {
				bad("explog", a, 0, fmt.Sprintf("%s: Exp(Log(%d))=%d", rf.Name, a, lf.Exp(l)))
				return
			}
		}
		for b := 0; b < q; b++ {
			if g, e := lf.Multiply(a, b), rf.Mul(a, b); g != e {
				bad("mul", a, b, fmt.Sprintf("%s: Multiply(%d,%d)=%d, shift-and-reduce gives %d", rf.Name, a, b, g, e))
				return
			}
			if rs.GenericGF_addOrSubtract(a, b) != a^b {
				bad("add", a, b, "addOrSubtract is not xor")
				return
			}
		}
	}
	c.EvalN(int64(q) * int64(q))
	c.Count("exhaustive.field_products."+rf.Name, q*q)
}

func randData(r *kit.RNG, f *gf.Field, k int) []int {
	d := make([]int, k)
	switch r.Intn(6) {
	case 0: // all zero
	case 1: // single non-zero symbol
		d[r.Intn(k)] = r.Range(1, f.Size-1)
	case 2: // all max
		for i := range d {
			d[i] = f.Size - 1
		}
	default:
		for i := range d {
			d[i] = r.Intn(f.Size)
		}
	}
	return d
}

func randErrors(r *kit.RNG, f *gf.Field, n, t int) [][2]int {
	if t == 0 {
		return nil
	}
	w := t
	if r.Chance(1, 2) {
		w = r.Range(1, t)
	}
	var pos []int
	switch r.Intn(6) {
	case 0: // burst
		s := r.Intn(n - w + 1)
		for i := 0; i < w; i++ {
			pos = append(pos, s+i)
		}
	case 1: // include both ends
		pos = r.Sample(n, w)
		pos[0] = 0
		if w > 1 {
			pos[len(pos)-1] = n - 1
		}
	case 2: // parity only / data only where possible (tail or head of the word)
		if r.Bool() {
			for _, p := range r.Sample(minInt(n, 2*t), w) {
				pos = append(pos, n-1-p)
			}
		} else {
			pos = r.Sample(maxInt(n-2*t, w), w)
		}
	default:
		pos = r.Sample(n, w)
	}
	sort.Ints(pos)
	var out [][2]int
	last := -1
	for _, p := range pos {
		if p == last || p < 0 || p >= n {
			continue
		}
		last = p
		m := r.Range(1, f.Size-1)
		switch r.Intn(5) {
		case 0:
			m = 1
		case 1:
			m = f.Size - 1
		}
		out = append(out, [2]int{p, m})
	}
	return out
}

// craftedErrors returns an error set of weight e <= t whose magnitudes are
// chosen so that a chosen set of e-1 syndromes is ZERO although the word is
// damaged ("arbitrarily corrupted" includes the adversary's choice): the first
// few, the last few, or a random subset. A decoder that looks at only some of
// the syndromes, or stops at the first zeros, takes such a word for clean or
// for a lighter error. Returns nil if no all-non-zero solution was found.
func craftedErrors(r *kit.RNG, f *gf.Field, n, rpar int) [][2]int {
	t := rpar / 2
	if t < 2 || n < 2 {
		return nil
	}
	e := r.Range(2, minInt(t, minInt(n, 12)))
	// which syndromes vanish
	var J []int
	switch r.Intn(4) {
	case 0: // the first e-1
		for j := 0; j < e-1; j++ {
			J = append(J, j)
		}
	case 1: // the last e-1
		for j := rpar - e + 1; j < rpar; j++ {
			J = append(J, j)
		}
	case 2: // every second one from the start
		for j := 0; len(J) < e-1 && j < rpar; j += 2 {
			J = append(J, j)
		}
	default:
		J = r.Sample(rpar, e-1)
	}
	if len(J) != e-1 {
		return nil
	}
	pos := r.Sample(n, e)
	sort.Ints(pos)
	// matrix rows: for j in J, coefficients alpha^((j+Base)*deg_k), deg_k = n-1-pos_k
	q1 := f.Size - 1
	A := make([][]int, len(J))
	for i, j := range J {
		A[i] = make([]int, e)
		for k, p := range pos {
			A[i][k] = f.Alpha(((j + f.Base) * (n - 1 - p)) % q1)
		}
	}
	// Gaussian elimination over GF(2^m); free variable = last column without pivot
	rows, cols := len(A), e
	pivCol := make([]int, 0, rows)
	rr := 0
	for c := 0; c < cols && rr < rows; c++ {
		p := -1
		for i := rr; i < rows; i++ {
			if A[i][c] != 0 {
				p = i
				break
			}
		}
		if p < 0 {
			continue
		}
		A[rr], A[p] = A[p], A[rr]
		inv := f.Inv(A[rr][c])
		for k := c; k < cols; k++ {
			A[rr][k] = f.Mul(A[rr][k], inv)
		}
		for i := 0; i < rows; i++ {
			if i != rr && A[i][c] != 0 {
				m := A[i][c]
				for k := c; k < cols; k++ {
					A[i][k] ^= f.Mul(m, A[rr][k])
				}
			}
		}
		pivCol = append(pivCol, c)
		rr++
	}
	isPiv := make([]bool, cols)
	for _, c := range pivCol {
		isPiv[c] = true
	}
	free := -1
	for c := cols - 1; c >= 0; c-- {
		if !isPiv[c] {
			free = c
			break
		}
	}
	if free < 0 {
		return nil
	}
	x := make([]int, cols)
	x[free] = r.Range(1, f.Size-1)
	for i, c := range pivCol {
		x[c] = f.Mul(A[i][free], x[free]) // x_c + A[i][free]*x_free = 0 (characteristic 2)
	}
	var out [][2]int
	for k, p := range pos {
		if x[k] == 0 {
			return nil
		}
		out = append(out, [2]int{p, x[k]})
	}
	return out
}

func minInt(a, b int) int {
	if a < b {
		return a
	}
	return b
}
func maxInt(a, b int) int {
	if a > b {
		return a
	}
	return b
}

func report04(c *kit.Ctx, tr *Trace04, f *fail, minimise bool) {
	if minimise && tr.Kind == "tx" {
		tr = min04(tr, f.class)
		if f2 := transmit(tr, func(string) {}); f2 != nil {
			f = f2
		}
	}
	c.Violate(f.class, f.class+"/"+tr.Field, f.detail, tr)
}

func min04(tr *Trace04, class string) *Trace04 {
	test := func(t *Trace04) bool {
		f := transmit(t, func(string) {})
		return f != nil && f.class == class
	}
	cur := *tr
	// one candidate costs about n*r + 10*r*r + |F|*r/2 table operations
	cost := int64(tr.K+tr.R)*int64(tr.R) + 10*int64(tr.R)*int64(tr.R) + 2048*int64(tr.R)
	budget := int(3e9 / (cost + 1))
	if budget > 400 {
		budget = 400
	}
	if budget < 8 {
		budget = 8
	}
	keep := kit.DDMinN(len(tr.Errors), budget, func(idx []int) bool {
		t := cur
		t.Errors = nil
		for _, i := range idx {
			t.Errors = append(t.Errors, tr.Errors[i])
		}
		return test(&t)
	})
	var es [][2]int
	for _, i := range keep {
		es = append(es, tr.Errors[i])
	}
	cur.Errors = es
	// all-zero data
	t := cur
	t.Data = make([]int, cur.K)
	if test(&t) {
		cur = t
	}
	// magnitudes to 1 (only when few errors are left)
	for i := range cur.Errors {
		if len(cur.Errors) > 16 {
			break
		}
		old := cur.Errors[i][1]
		cur.Errors[i][1] = 1
		if !test(&cur) {
			cur.Errors[i][1] = old
		}
	}
	return &cur
}

func cacheHistory(c *kit.Ctx, tr *Trace04) *fail {
	rf := gf.ByName(tr.Field)
	if rf == nil {
		return nil
	}
	lf := libField(rf)
	var res *fail
	func() {
		defer func() {
			if r := recover(); r != nil {
				res = &fail{"cache/panic", fmt.Sprintf("panic: %v", r)}
			}
		}()
		enc := rs.NewReedSolomonEncoder(lf)
		r := kit.NewRNG(uint64(tr.K))
		for step, ec := range tr.Seq {
			k := 1 + r.Intn(minInt(20, rf.Size-1-ec))
			if ec < 1 || k+ec > rf.Size-1 {
				continue
			}
			data := randData(r, rf, k)
			w1 := make([]int, k+ec)
			copy(w1, data)
			if err := enc.Encode(w1, ec); err != nil {
				res = &fail{"cache/error", fmt.Sprintf("step %d: Encode error %v", step, err)}
				return
			}
			ref := rf.Encode(data, ec)
			for i := range ref {
				if w1[i] != ref[i] {
					res = &fail{"cache/parity", fmt.Sprintf("step %d (ec=%d after %v): re-used encoder differs from reference at %d", step, ec, tr.Seq[:step], i)}
					return
				}
			}
			c.EvalN(1)
		}
	}()
	return res
}

// decoderHistory drives ONE decoder object through a sequence of damaged
// words with changing parity counts and lengths (a reader keeps one decoder
// and feeds it block after block, symbol after symbol). Step i is a pure
// function of (tr.K, i, tr.Seq[i]); a Seq entry <= 0 is a skipped step, so a
// minimised trace keeps the remaining steps unchanged.
func decoderHistory(c *kit.Ctx, tr *Trace04, probe func(string)) *fail { // c may be nil (minimisation)
	rf := gf.ByName(tr.Field)
	if rf == nil {
		return nil
	}
	lf := libField(rf)
	var res *fail
	func() {
		defer func() {
			if r := recover(); r != nil {
				res = &fail{"dechist/panic", fmt.Sprintf("panic: %v", r)}
			}
		}()
		dec := rs.NewReedSolomonDecoder(lf)
		for step, ec := range tr.Seq {
			r := kit.NewRNG(uint64(tr.K)*0x9e3779b97f4a7c15 + uint64(step))
			if ec < 2 || ec >= rf.Size-2 {
				continue
			}
			k := 1 + r.Intn(minInt(30, rf.Size-1-ec))
			data := randData(r, rf, k)
			sent := rf.Encode(data, ec)
			word := append([]int(nil), sent...)
			t := ec / 2
			nerr := r.Intn(t + 1)
			if r.Chance(1, 3) {
				nerr = t
			}
			seen := map[int]bool{}
			for len(seen) < nerr && len(seen) < len(word) {
				p := r.Intn(len(word))
				if seen[p] {
					continue
				}
				seen[p] = true
				word[p] ^= 1 + r.Intn(rf.Size-1)
			}
			if nerr > 0 {
				probe("fault.symbol_errors_on_a_reused_decoder")
			}
			err := dec.Decode(word, ec)
			hist := fmt.Sprintf("step %d (r=%d, k=%d, %d errors, t=%d) on a decoder that was asked r=%v before", step, ec, k, len(seen), t, tr.Seq[:step])
			if err != nil {
				res = &fail{"dechist/error", hist + fmt.Sprintf(": not corrected: %v", err)}
				return
			}
			for i := range word {
				if word[i] != sent[i] {
					res = &fail{"dechist/miscorrect", hist + fmt.Sprintf(": Decode returned nil but symbol %d is %d, sent %d", i, word[i], sent[i])}
					return
				}
			}
			if c != nil {
				c.EvalN(1)
			}
		}
	}()
	return res
}

// minDecHist drops (zeroes) history steps while the same failure class persists.
func minDecHist(c *kit.Ctx, tr *Trace04, class string) *Trace04 {
	cur := *tr
	cur.Seq = append([]int(nil), tr.Seq...)
	for i := range cur.Seq {
		if cur.Seq[i] <= 0 {
			continue
		}
		old := cur.Seq[i]
		cur.Seq[i] = 0
		f := decoderHistory(nil, &cur, func(string) {})
		if f == nil || f.class != class {
			cur.Seq[i] = old
		}
	}
	return &cur
}

// firstCallJob makes one accessor the first thing this job asks of the field
// object and compares a sample of its answers with the reference field.
func firstCallJob(c *kit.Ctx, rf *gf.Field, op int) {
	lf := libField(rf)
	name := []string{"Log", "Exp", "Inverse", "Multiply"}[op%4]
	bad := func(a, b int, detail string) {
		c.Violate("field/first-"+name, "field/first-"+name+"/"+rf.Name, detail+" [the first call on this field object in the job; tables built on first use?]", &Trace04{Kind: "first", Field: rf.Name, A: a, B: b, R: op})
	}
	defer func() {
		if r := recover(); r != nil {
			bad(0, 0, fmt.Sprintf("panic in field %s: %v", rf.Name, r))
		}
	}()
	r := kit.NewRNG(uint64(op)*977 + uint64(rf.Size))
	for i := 0; i < 64; i++ {
		a, b := 1+r.Intn(rf.Size-1), 1+r.Intn(rf.Size-1)
		e := r.Intn(rf.Size - 1)
		switch op % 4 {
		case 0:
			l, err := lf.Log(a)
			if err != nil || l < 0 || l >= rf.Size-1 || rf.Alpha(l) != a {
				bad(a, 0, fmt.Sprintf("%s: Log(%d)=%d,%v but alpha^%d=%d", rf.Name, a, l, err, l, rf.Alpha(((l%(rf.Size-1))+rf.Size-1)%(rf.Size-1))))
				return
			}
		case 1:
			if g := lf.Exp(e); g != rf.Alpha(e) {
				bad(e, 0, fmt.Sprintf("%s: Exp(%d)=%d, alpha^%d=%d", rf.Name, e, g, e, rf.Alpha(e)))
				return
			}
		case 2:
			inv, err := lf.Inverse(a)
			if err != nil || rf.Mul(a, inv) != 1 {
				bad(a, 0, fmt.Sprintf("%s: Inverse(%d)=%d,%v; a*inv != 1", rf.Name, a, inv, err))
				return
			}
		default:
			if g, w := lf.Multiply(a, b), rf.Mul(a, b); g != w {
				bad(a, b, fmt.Sprintf("%s: Multiply(%d,%d)=%d, shift-and-reduce gives %d", rf.Name, a, b, g, w))
				return
			}
		}
		c.EvalN(1)
	}
	c.Count("field.first_call_"+name, 1)
}

// C04 returns the runner spec.
func C04() *kit.Spec {
	var cache = map[string][]job04{}
	jobs := func(tier string) []job04 {
		if j, ok := cache[tier]; ok {
			return j
		}
		j := jobs04(tier)
		cache[tier] = j
		return j
	}
	return &kit.Spec{
		Property: "C04",
		Engine:   "chansim",
		Level:    "fault_enumeration",
		Rule: "one evaluation = one word sent through real encoder -> simulated codeword channel -> real decoder; faults = symbol errors (position, non-zero magnitude) within the budget floor(r/2). " +
			"Enumerated exhaustively: all field products/inverses/logs of the six fields; every single error (position x magnitude; magnitude sample for GF(1024)/GF(4096)) on every block shape the 2-D symbologies use; all double-error position pairs for codes of length <= 40. " +
			"Seeded: error sets of weight 1..t incl. exactly t, bursts, both ends, parity-only/data-only, and adversarial sets whose magnitudes make a chosen subset of the syndromes vanish (solved over the reference field), on every real shape and on random shapes. distinct_nontrivial = distinct hashes of seeded (shape, data, error set) with at least one error; exhaustive sweeps are counted in evaluations only",
		StateMetric: "distinct (field,k,r,data,error set) transmissions; plus exhaustive counters per sweep",
		Assumptions: []string{
			"reference field arithmetic (shift-and-reduce modulo the standards' primitive polynomials, alpha = 2, generator base 0 for QR and 1 otherwise) is the oracle; it is checked for primitivity of alpha at run time",
			"the exhaustive field comparison is a differential enumeration, not simulation; it is here because the reference field is the foundation of every chansim oracle",
			"nothing beyond floor(r/2) errors is injected: beyond the budget the property promises nothing",
		},
		Components: map[string]string{
			"reedsolomon.ReedSolomonEncoder": "real (sender)",
			"reedsolomon.ReedSolomonDecoder": "real (receiver)",
			"reedsolomon.GenericGF":          "real",
			"codeword channel":               "simulated medium (harness)",
			"gf.Field / Parity / Syndromes":  "reference model (harness)",
		},
		FaultKinds:  []string{"none(control)", "symbol_errors_below_t", "symbol_errors_exactly_t", "symbol_errors_on_a_reused_decoder", "symbol_errors_with_chosen_syndromes_zero"},
		SimTimeNote: "none: no timers; logical steps = words transmitted",
		NumRuns:     func(tier string) int { return len(jobs(tier)) },
		Run: func(c *kit.Ctx) {
			j := jobs(c.Tier)[c.Run]
			r := c.RNG
			watchCtx = c
			t0 := time.Now() // reporting only, never a decision input
			defer func() {
				name := j.kind
				if j.sh.f != nil {
					name += "." + j.sh.f.Name
				}
				c.Count("cpu_ms."+name, int(time.Since(t0)/time.Millisecond))
			}()
			probe := func(p string) { c.Count(p, 1) }
			switch j.kind {
			case "field":
				fieldJob(c, j.field)
			case "first":
				firstCallJob(c, j.field, j.n)
			case "singles", "doubles":
				s := j.sh
				n := s.k + s.r
				base := &Trace04{Kind: "tx", Field: s.f.Name, K: s.k, R: s.r, Data: randData(r, s.f, s.k)}
				pw, f := prepare(base, probe)
				if f != nil {
					report04(c, base, f, true)
					return
				}
				if f := pw.attempt(nil, probe); f != nil {
					report04(c, base, f, true)
					return
				}
				try := func(errs [][2]int) bool {
					if f := pw.attempt(errs, probe); f != nil {
						tr := *base
						tr.Errors = errs
						report04(c, &tr, f, true)
						return false
					}
					return true
				}
				cnt := int64(1)
				// cost model: one decode ~ n*r table operations
				// (small fields are always swept completely; the two large
				// Aztec fields get a per-job budget)
				budget := int64(6e8) // complete for every QR block shape and all but the largest Data Matrix ones
				if c.Tier == "thorough" {
					budget = 2e10
				}
				if s.f.Size > 256 {
					budget = 1e8
					if c.Tier == "thorough" {
						budget = 1e10
					}
				}
				per := int64(n) * int64(s.r)
				if j.kind == "singles" {
					if s.r < 2 {
						return
					}
					var mags []int
					if s.f.Size <= 256 {
						for m := 1; m < s.f.Size; m++ {
							mags = append(mags, m)
						}
					} else {
						mags = append(mags, 1, s.f.Size-1, s.f.Size/2)
						for i := 0; i < 5; i++ {
							mags = append(mags, s.f.Alpha(r.Intn(s.f.Size-1)))
						}
					}
					complete := true
					for len(mags) > 1 && per*int64(n)*int64(len(mags)) > budget {
						mags = mags[:len(mags)/2]
						complete = false
					}
					stride := 1
					for per*int64(n/stride+4)*int64(len(mags)) > budget {
						stride *= 2
					}
					for p := 0; p < n; p++ {
						if stride > 1 && p%stride != 0 && p != n-1 && p != s.k-1 && p != s.k {
							continue
						}
						for _, m := range mags {
							cnt++
							if !try([][2]int{{p, m}}) {
								return
							}
						}
					}
					switch {
					case stride > 1:
						c.Count("sweep.single_errors_position_sample(budget)", 1)
					case !complete || s.f.Size > 256:
						c.Count("sweep.single_errors_all_positions_x_magnitude_sample", 1)
					default:
						c.Count("sweep.single_errors_all_positions_x_all_magnitudes", 1)
					}
				} else {
					for p := 0; p < n; p++ {
						for q := p + 1; q < n; q++ {
							cnt++
							if !try([][2]int{{p, r.Range(1, s.f.Size-1)}, {q, r.Range(1, s.f.Size-1)}}) {
								return
							}
						}
					}
					c.Count("sweep.double_error_all_position_pairs", 1)
				}
				c.EvalN(cnt)
				c.Steps(cnt)
				c.Event(fmt.Sprintf("%s %d", j.kind, cnt))
			case "seeded":
				// cost model per transmission: syndromes n*r + Euclid r*r +
				// Chien search |F|*r/2; the job stops when its budget is spent
				budget := int64(1e8)
				if c.Tier == "thorough" {
					budget = 4e9
				}
				for i := 0; i < j.n && (budget > 0 || i < 2); i++ {
					s := j.sh
					if s.f == nil {
						f := gf.All[r.Intn(len(gf.All))]
						n := r.Range(2, f.Size-1)
						if r.Chance(1, 4) {
							n = f.Size - 1
						}
						rr := r.Range(1, n-1)
						if f.Size > 256 && r.Chance(3, 4) {
							rr = r.Range(1, minInt(n-1, 64))
						}
						s = shape{f, n - rr, rr, "random"}
					}
					budget -= int64(s.k+s.r)*int64(s.r) + 10*int64(s.r)*int64(s.r) + int64(s.f.Size)*int64(s.r)/2
					tr := &Trace04{Kind: "tx", Field: s.f.Name, K: s.k, R: s.r, Data: randData(r, s.f, s.k)}
					tr.Errors = randErrors(r, s.f, s.k+s.r, s.r/2)
					if r.Chance(1, 4) {
						if ce := craftedErrors(r, s.f, s.k+s.r, s.r); ce != nil {
							tr.Errors = ce
							probe("fault.symbol_errors_with_chosen_syndromes_zero")
						}
					}
					if c.Run%50 == 7 && i == 0 {
						c.Sample(tr)
					}
					c.Eval(kit.HashJSON(tr), len(tr.Errors) > 0)
					c.Event(fmt.Sprintf("%x", kit.HashJSON(tr)))
					c.Steps(1)
					if f := transmit(tr, probe); f != nil {
						report04(c, tr, f, true)
						return
					}
				}
			case "cache":
				f := gf.All[r.Intn(len(gf.All))]
				tr := &Trace04{Kind: "cache", Field: f.Name, K: int(r.Uint64() >> 40)}
				n := r.Range(2, 12)
				for i := 0; i < n; i++ {
					tr.Seq = append(tr.Seq, r.Range(1, minInt(40, f.Size-3)))
				}
				c.Eval(kit.HashJSON(tr), true)
				if fl := cacheHistory(c, tr); fl != nil {
					c.Violate(fl.class, fl.class+"/"+tr.Field, fl.detail, tr)
				}
			case "dechist":
				f := gf.All[r.Intn(len(gf.All))]
				tr := &Trace04{Kind: "dechist", Field: f.Name, K: int(r.Uint64() >> 40)}
				n := r.Range(2, 14)
				for i := 0; i < n; i++ {
					tr.Seq = append(tr.Seq, r.Range(2, minInt(60, f.Size-3)))
				}
				c.Eval(kit.HashJSON(tr), true)
				c.Steps(int64(n))
				if fl := decoderHistory(c, tr, probe); fl != nil {
					tr = minDecHist(c, tr, fl.class)
					if f2 := decoderHistory(nil, tr, func(string) {}); f2 != nil {
						fl = f2
					}
					c.Violate(fl.class, fl.class+"/"+tr.Field, fl.detail, tr)
				}
			}
		},
		Replay: func(c *kit.Ctx, raw json.RawMessage) {
			tr := &Trace04{}
			if err := json.Unmarshal(raw, tr); err != nil {
				c.Fatal("bad trace: " + err.Error())
				return
			}
			watchCtx = c
			switch tr.Kind {
			case "tx":
				if f := transmit(tr, func(string) {}); f != nil {
					report04(c, tr, f, false)
				}
			case "field":
				fieldJob(c, gf.ByName(tr.Field))
			case "first":
				// a fresh replay process: this IS the first call on the field object
				firstCallJob(c, gf.ByName(tr.Field), tr.R)
			case "cache":
				if fl := cacheHistory(c, tr); fl != nil {
					c.Violate(fl.class, fl.class+"/"+tr.Field, fl.detail, tr)
				}
			case "dechist":
				if fl := decoderHistory(c, tr, func(string) {}); fl != nil {
					c.Violate(fl.class, fl.class+"/"+tr.Field, fl.detail, tr)
				}
			}
		},
		Extra: func(tier string, cov map[string]interface{}) {
			cov["real_block_shapes"] = len(realShapes())
		},
	}
}

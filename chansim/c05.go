package chansim

import (
	"bytes"
	"encoding/json"
	"fmt"
	"strings"

	"github.com/makiuchi-d/gozxing"
	"github.com/makiuchi-d/gozxing/common"
	"github.com/makiuchi-d/gozxing/datamatrix"
	dmdec "github.com/makiuchi-d/gozxing/datamatrix/decoder"
	dmenc "github.com/makiuchi-d/gozxing/datamatrix/encoder"
	qrdec "github.com/makiuchi-d/gozxing/qrcode/decoder"
	qrenc "github.com/makiuchi-d/gozxing/qrcode/encoder"

	"verif/chansim/dmref"
	"verif/chansim/gf"
	"verif/chansim/qrref"
	"verif/kit"
)

// Fault05 is one injected fault. Kind "cw": XOR Delta (non-zero 8 bit) into
// codeword Index of block Block at its placed modules. Kinds "fmt1","fmt2",
// "ver1","ver2": flip bit Index of that copy of the format/version information.
type Fault05 struct {
	Kind  string `json:"kind"`
	Block int    `json:"block,omitempty"`
	Index int    `json:"index"`
	Delta int    `json:"delta,omitempty"`
}

// Trace05 is one symbol sent through the module-matrix medium.
type Trace05 struct {
	Sym    string    `json:"sym"`    // "qr" | "dm"
	Sender string    `json:"sender"` // "library" | "reference" | "reference-alt144"
	V      int       `json:"version,omitempty"`
	Level  int       `json:"level,omitempty"` // 0..3 = L M Q H
	Mask   int       `json:"mask,omitempty"`
	Rows   int       `json:"rows,omitempty"`
	Cols   int       `json:"cols,omitempty"`
	Text   string    `json:"text"`
	Faults []Fault05 `json:"faults"`
	Sweep  bool      `json:"sweep,omitempty"` // exhaustive single-codeword sweep over this symbol
	// Prev lists the (damaged) symbols decoded earlier by the same decoder
	// objects (instance-reuse history); empty = fresh decoders
	Prev []*Trace05 `json:"prev,omitempty"`
}

// sharedDec, when non-nil, is the pair of long-lived decoder objects every
// decode goes through (an application keeps one decoder and feeds it symbol
// after symbol); nil = a fresh decoder per decode.
var sharedDec *decoders05

type decoders05 struct {
	qr *qrdec.Decoder
	dm *dmdec.Decoder
}

func newDecoders05() *decoders05 { return &decoders05{qr: qrdec.NewDecoder(), dm: dmdec.NewDecoder()} }

// what the long-lived decoders returned last, with private copies: a result
// handed to the caller must stay what it was
var held05 struct {
	res  *common.DecoderResult
	text string
	raw  []byte
}
var stale05 string

func hold05(res *common.DecoderResult) {
	if sharedDec == nil {
		held05.res = nil
		return
	}
	if h := held05.res; h != nil && (h.GetText() != held05.text || !bytes.Equal(h.GetRawBytes(), held05.raw)) {
		stale05 = fmt.Sprintf("the result a long-lived decoder returned earlier showed %q then and shows %q after a later decode", trunc(held05.text), trunc(h.GetText()))
	}
	held05.res = res
	if res != nil {
		held05.text = string(append([]byte(nil), res.GetText()...))
		held05.raw = append([]byte(nil), res.GetRawBytes()...)
	}
}

var libLevels = []qrdec.ErrorCorrectionLevel{qrdec.ErrorCorrectionLevel_L, qrdec.ErrorCorrectionLevel_M, qrdec.ErrorCorrectionLevel_Q, qrdec.ErrorCorrectionLevel_H}

type symbol05 struct {
	mask    int // the mask the symbol really carries (the writer's, not the hint)
	tr      *Trace05
	m       [][]bool // [y][x], no quiet zone
	qrLay   *qrref.Layout
	qrBlk   qrref.Blocks
	dmSym   *dmref.Symbol
	dmLay   *dmref.Layout
	ctlText string
	ctlRaw  []byte
	ctlEC   string
}

func toBitMatrix(m [][]bool) *gozxing.BitMatrix {
	bm, _ := gozxing.NewBitMatrix(len(m[0]), len(m))
	for y, row := range m {
		for x, v := range row {
			if v {
				bm.Set(x, y)
			}
		}
	}
	return bm
}

type decoded struct {
	text string
	raw  []byte
	ec   string
	err  error
	pan  interface{}
}

func (s *symbol05) decode(m [][]bool) (d decoded) {
	enter("fault/hang", "fault/hang/"+s.tr.Sym, s.tr, "decoding "+s.describe())
	defer leave()
	defer func() {
		if r := recover(); r != nil {
			d.pan = r
		}
	}()
	bm := toBitMatrix(m)
	if s.tr.Sym == "qr" {
		qd := qrdec.NewDecoder()
		if sharedDec != nil {
			qd = sharedDec.qr
		}
		// every public entry point of the decoder, chosen by the matrix itself
		var res *common.DecoderResult
		var err error
		switch entrySel(m) {
		case 0:
			res, err = qd.Decode(bm, nil)
		case 1:
			res, err = qd.DecodeBoolMap(m, nil)
		case 2:
			res, err = qd.DecodeWithoutHint(bm)
		default:
			res, err = qd.DecodeBoolMapWithoutHint(m)
		}
		if err != nil {
			d.err = err
			return
		}
		if res == nil {
			d.err = fmt.Errorf("nil result and nil error")
			return
		}
		hold05(res)
		return decoded{text: res.GetText(), raw: res.GetRawBytes(), ec: res.GetECLevel()}
	}
	dd := dmdec.NewDecoder()
	if sharedDec != nil {
		dd = sharedDec.dm
	}
	var res *common.DecoderResult
	var err error
	if entrySel(m)%2 == 0 {
		res, err = dd.Decode(bm)
	} else {
		res, err = dd.DecodeBoolMap(m)
	}
	if err != nil {
		d.err = err
		return
	}
	if res == nil {
		d.err = fmt.Errorf("nil result and nil error")
		return
	}
	hold05(res)
	return decoded{text: res.GetText(), raw: res.GetRawBytes(), ec: res.GetECLevel()}
}

// entrySel picks one of the decoder's public entry points from the matrix
// content (a pure function of what is decoded, so replay needs nothing more).
func entrySel(m [][]bool) int {
	n := 0
	for _, row := range m {
		for _, v := range row {
			if v {
				n++
			}
		}
	}
	return n % 4
}

func isChecksum(err error) bool {
	if err == nil {
		return false
	}
	_, ok := err.(gozxing.ChecksumException)
	return ok
}

// send builds the symbol with the chosen sender. It returns nil, "" when the
// sender refuses (outside C05).
func send(tr *Trace05) (s *symbol05, skip string, f *fail) {
	enter("writer/hang", "writer/hang/"+tr.Sym, tr, "the writer did not return (outside C05 unless the reader is involved)")
	defer leave()
	defer func() {
		if r := recover(); r != nil {
			s, skip, f = nil, fmt.Sprintf("sender panicked: %v", r), nil
		}
	}()
	s = &symbol05{tr: tr}
	switch tr.Sym {
	case "qr":
		if tr.V < 1 || tr.V > 40 || tr.Level < 0 || tr.Level > 3 || tr.Mask < 0 || tr.Mask > 7 {
			return nil, "bad parameters", nil
		}
		s.qrLay = qrref.LayoutOf(tr.V)
		s.qrBlk = qrref.BlocksOf(tr.V, tr.Level)
		s.mask = tr.Mask
		if tr.Sender == "reference" {
			s.m = qrref.BuildSymbol(tr.V, tr.Level, tr.Mask, []byte(tr.Text))
			if s.m == nil {
				return nil, "reference sender: payload does not fit", nil
			}
			return s, "", nil
		}
		hints := map[gozxing.EncodeHintType]interface{}{
			gozxing.EncodeHintType_QR_VERSION:      tr.V,
			gozxing.EncodeHintType_QR_MASK_PATTERN: tr.Mask,
		}
		code, err := qrenc.Encoder_encode(tr.Text, libLevels[tr.Level], hints)
		if err != nil {
			return nil, "writer refused: " + err.Error(), nil
		}
		bm := code.GetMatrix()
		if bm.GetWidth() != s.qrLay.N {
			return nil, "writer chose another version", nil
		}
		if m := code.GetMaskPattern(); m >= 0 && m <= 7 {
			s.mask = m // (a writer that ignores the hint is not C05's business; the layout must follow the symbol)
		}
		s.m = make([][]bool, bm.GetHeight())
		for y := range s.m {
			s.m[y] = make([]bool, bm.GetWidth())
			for x := range s.m[y] {
				s.m[y][x] = bm.Get(x, y) == 1
			}
		}
		return s, "", nil
	case "dm":
		s.dmSym = dmref.Find(tr.Rows, tr.Cols)
		if s.dmSym == nil {
			return nil, "bad size", nil
		}
		s.dmLay = dmref.LayoutOf(s.dmSym)
		if strings.HasPrefix(tr.Sender, "reference") {
			s.m = dmref.BuildSymbol(s.dmSym, []byte(tr.Text), tr.Sender == "reference-alt144")
			if s.m == nil {
				return nil, "reference sender: payload does not fit", nil
			}
			return s, "", nil
		}
		dim, _ := gozxing.NewDimension(tr.Cols, tr.Rows)
		shape := dmenc.SymbolShapeHint_FORCE_SQUARE
		if tr.Rows != tr.Cols {
			shape = dmenc.SymbolShapeHint_FORCE_RECTANGLE
		}
		hints := map[gozxing.EncodeHintType]interface{}{
			gozxing.EncodeHintType_DATA_MATRIX_SHAPE: shape,
			gozxing.EncodeHintType_MIN_SIZE:          dim,
			gozxing.EncodeHintType_MAX_SIZE:          dim,
		}
		bm, err := datamatrix.NewDataMatrixWriter().Encode(tr.Text, gozxing.BarcodeFormat_DATA_MATRIX, 0, 0, hints)
		if err != nil {
			return nil, "writer refused: " + err.Error(), nil
		}
		if bm.GetWidth() != tr.Cols || bm.GetHeight() != tr.Rows {
			return nil, "writer chose another size", nil
		}
		s.m = make([][]bool, tr.Rows)
		for y := range s.m {
			s.m[y] = make([]bool, tr.Cols)
			for x := range s.m[y] {
				s.m[y][x] = bm.Get(x, y)
			}
		}
		return s, "", nil
	}
	return nil, "bad symbology", nil
}

// blockWords reads the symbol through the harness layout.
func (s *symbol05) blockWords(m [][]bool) ([][]int, []int) {
	get := func(x, y int) bool { return m[y][x] }
	if s.tr.Sym == "qr" {
		b := s.qrBlk
		words := qrref.Deinterleave(b, s.qrLay.ReadStream(get, s.mask))
		ecs := make([]int, b.N)
		for i := range ecs {
			ecs[i] = b.EC
		}
		return words, ecs
	}
	words := s.dmSym.SplitBlocks(s.dmLay.ReadStream(get))
	ecs := make([]int, s.dmSym.Blocks)
	for i := range ecs {
		ecs[i] = s.dmSym.ECPerBlock()
	}
	return words, ecs
}

func (s *symbol05) field() *gf.Field {
	if s.tr.Sym == "qr" {
		return gf.QR256
	}
	return gf.DM256
}

// control runs the fault-free configuration. outcome: "ok", "skip:<why>" or a failure.
func (s *symbol05) control(probe func(string)) (string, *fail) {
	d := s.decode(s.m)
	words, ecs := s.blockWords(s.m)
	synOK := true
	for i, w := range words {
		if !s.field().SyndromesZero(w, ecs[i]) {
			synOK = false
		}
	}
	alt := s.tr.Sender == "reference-alt144" // a non-standard arrangement: may be rejected in any way
	if d.pan != nil {
		if alt {
			return "skip:reference-alt symbol crashes the decoder", nil
		}
		// "up to floor(ec/2)" includes none: the undamaged symbol must decode to the original text
		return "", &fail{"control/panic", fmt.Sprintf("undamaged %s: decoder panicked: %v", s.describe(), d.pan)}
	}
	if d.err != nil {
		if isChecksum(d.err) {
			if s.tr.Sender == "library" {
				return "", &fail{"control/checksum", fmt.Sprintf("undamaged %s made by the library's own writer is rejected by the library's decoder with a checksum error: writer and reader disagree about the block structure (harness layout sees zero syndromes: %v): %v", s.describe(), synOK, d.err)}
			}
			if synOK {
				return "", &fail{"control/checksum", fmt.Sprintf("undamaged conforming %s (reference sender, zero syndromes) is rejected with a checksum error: %v", s.describe(), d.err)}
			}
			return "skip:reference-alt symbol rejected (expected for the non-standard arrangement)", nil
		}
		if alt || !synOK {
			return "skip:control failed outside the error-control layer: " + d.err.Error(), nil
		}
		return "", &fail{"control/error", fmt.Sprintf("undamaged %s (zero syndromes by the harness layout) is not decoded: %T %v", s.describe(), d.err, d.err)}
	}
	if !synOK {
		// decoder reads it although the harness layout sees non-zero
		// syndromes: writer and reader share a reading of the standard that
		// differs from the harness's. C07/C08 territory; never reported.
		probe("probe.shared_deviation_from_harness_layout")
		return "skip:harness layout disagrees with a symbol the decoder reads", nil
	}
	if s.tr.Sender == "library" || s.tr.Sym == "qr" || true {
		if d.text != s.tr.Text {
			if alt {
				return "skip:reference-alt symbol decodes to another text", nil
			}
			return "", &fail{"control/text", fmt.Sprintf("undamaged %s decodes to %q, the original text is %q", s.describe(), trunc(d.text), trunc(s.tr.Text))}
		}
	}
	// raw data codewords as the harness reads them
	// (QR: blocks hold consecutive runs of the data, so the concatenation of
	// the blocks' data parts is the data in its original order; Data Matrix
	// deals the data round-robin, so the original order is the stream order)
	var raw []byte
	if s.tr.Sym == "qr" {
		for i, w := range words {
			for _, c := range w[:len(w)-ecs[i]] {
				raw = append(raw, byte(c))
			}
		}
	} else {
		get := func(x, y int) bool { return s.m[y][x] }
		for _, c := range s.dmLay.ReadStream(get)[:s.dmSym.Data] {
			raw = append(raw, byte(c))
		}
	}
	// The property speaks of the text. How the decoder presents raw bytes and
	// the level is its own business: counted when it differs from the harness's
	// reading, never reported; the damaged decodes are compared with THIS
	// decode's raw bytes and level (fault/rawbytes, fault/eclevel), which is
	// independent of the presentation.
	if !bytes.Equal(raw, d.raw) {
		probe("probe.raw_bytes_presented_differently_from_harness_reading")
	}
	s.ctlText, s.ctlRaw, s.ctlEC = d.text, d.raw, d.ec
	if s.tr.Sym == "qr" && d.ec != qrref.LevelNames[s.tr.Level] {
		probe("probe.ec_level_presented_differently_from_harness_reading")
	}
	return "ok", nil
}

func (s *symbol05) describe() string {
	if s.tr.Sym == "qr" {
		return fmt.Sprintf("QR v%d-%s mask %d (%s sender)", s.tr.V, qrref.LevelNames[s.tr.Level], s.tr.Mask, s.tr.Sender)
	}
	return fmt.Sprintf("Data Matrix %dx%d (%s sender)", s.tr.Rows, s.tr.Cols, s.tr.Sender)
}

func (s *symbol05) numBlocks() int {
	if s.tr.Sym == "qr" {
		return s.qrBlk.N
	}
	return s.dmSym.Blocks
}

func (s *symbol05) blockLen(b int) (total, ec int) {
	if s.tr.Sym == "qr" {
		return s.qrBlk.DataLen(b) + s.qrBlk.EC, s.qrBlk.EC
	}
	return s.dmSym.DataLen(b) + s.dmSym.ECPerBlock(), s.dmSym.ECPerBlock()
}

// apply returns a damaged copy; within reports whether the plan is inside the
// budget the property states (only then is the oracle applied).
func (s *symbol05) apply(faults []Fault05, probe func(string)) (m [][]bool, within bool, nfaults int) {
	m = make([][]bool, len(s.m))
	for y := range m {
		m[y] = append([]bool(nil), s.m[y]...)
	}
	flip := func(x, y int) { m[y][x] = !m[y][x] }
	perBlock := map[int]map[int]bool{}
	copies := map[string]map[int]bool{}
	within = true
	for _, f := range faults {
		switch f.Kind {
		case "cw":
			if f.Block < 0 || f.Block >= s.numBlocks() || f.Delta <= 0 || f.Delta > 255 {
				continue
			}
			tot, _ := s.blockLen(f.Block)
			if f.Index < 0 || f.Index >= tot {
				continue
			}
			if perBlock[f.Block] == nil {
				perBlock[f.Block] = map[int]bool{}
			}
			if perBlock[f.Block][f.Index] {
				continue
			}
			perBlock[f.Block][f.Index] = true
			var mods []struct{ X, Y int }
			if s.tr.Sym == "qr" {
				for _, p := range s.qrLay.CodewordModules(s.qrBlk.StreamIndex(f.Block, f.Index)) {
					mods = append(mods, struct{ X, Y int }{p.X, p.Y})
				}
			} else {
				for _, p := range s.dmLay.Pos[s.dmSym.StreamPos(f.Block, f.Index)] {
					mods = append(mods, struct{ X, Y int }{p.X, p.Y})
				}
			}
			for i, p := range mods {
				if (f.Delta>>uint(7-i))&1 == 1 {
					flip(p.X, p.Y)
				}
			}
			nfaults++
			probe("fault.cw")
		case "fmt1", "fmt2", "ver1", "ver2":
			if s.tr.Sym != "qr" {
				continue
			}
			var pos []qrref.XY
			switch f.Kind {
			case "fmt1":
				pos = s.qrLay.Fmt1
			case "fmt2":
				pos = s.qrLay.Fmt2
			case "ver1":
				pos = s.qrLay.Ver1
			default:
				pos = s.qrLay.Ver2
			}
			if f.Index < 0 || f.Index >= len(pos) {
				continue
			}
			if copies[f.Kind] == nil {
				copies[f.Kind] = map[int]bool{}
			}
			if copies[f.Kind][f.Index] {
				continue
			}
			copies[f.Kind][f.Index] = true
			flip(pos[f.Index].X, pos[f.Index].Y)
			nfaults++
			probe("fault." + f.Kind)
		}
	}
	for b, set := range perBlock {
		_, ec := s.blockLen(b)
		if len(set) > ec/2 {
			within = false
		}
		if len(set) == ec/2 {
			probe("probe.block_at_exactly_t")
		}
	}
	for _, set := range copies {
		if len(set) > 3 {
			within = false
		}
		if len(set) == 3 {
			probe("probe.info_copy_at_3_flips")
		}
	}
	return m, within, nfaults
}

// check applies the fault-injecting oracle to one plan.
func (s *symbol05) check(faults []Fault05, probe func(string)) *fail {
	m, within, n := s.apply(faults, probe)
	if !within || n == 0 {
		return nil
	}
	d := s.decode(m)
	what := fmt.Sprintf("%s with %d within-budget faults", s.describe(), n)
	if stale05 != "" {
		msg := stale05
		stale05 = ""
		return &fail{"fault/result-changes-later", what + ": " + msg}
	}
	switch {
	case d.pan != nil:
		return &fail{"fault/panic", fmt.Sprintf("%s: decoder panicked: %v", what, d.pan)}
	case d.err != nil:
		return &fail{"fault/error", fmt.Sprintf("%s: decoder returned %T %v; the undamaged symbol decodes", what, d.err, d.err)}
	case d.text != s.ctlText:
		return &fail{"fault/text", fmt.Sprintf("%s: decoded text differs from the text sent (%q vs %q)", what, trunc(d.text), trunc(s.ctlText))}
	case !bytes.Equal(d.raw, s.ctlRaw):
		return &fail{"fault/rawbytes", fmt.Sprintf("%s: raw data codewords differ from the undamaged symbol's", what)}
	case d.ec != s.ctlEC:
		return &fail{"fault/eclevel", fmt.Sprintf("%s: EC level %q, sent %q", what, d.ec, s.ctlEC)}
	}
	return nil
}

func trunc(s string) string {
	if len(s) > 40 {
		return s[:40] + "..."
	}
	return s
}

// ---------------------------------------------------------------- generation

func qrPayload(r *kit.RNG, v, level int, sender string) string {
	capBytes := qrref.BlocksOf(v, level).DataCodewords() - 3
	if capBytes < 1 {
		capBytes = 1
	}
	n := r.Range(1, capBytes)
	if r.Chance(1, 3) {
		n = capBytes // fill the symbol
	}
	var sb strings.Builder
	class := r.Intn(3)
	if sender == "reference" {
		class = 2
	}
	for i := 0; i < n; i++ {
		switch class {
		case 0:
			sb.WriteByte(byte('0' + r.Intn(10)))
		case 1:
			sb.WriteByte("ABCDEFGHIJKLMNOPQRSTUVWXYZ0123456789 $%*+-./:"[r.Intn(45)])
		default:
			sb.WriteByte(byte(32 + r.Intn(95)))
		}
	}
	return sb.String()
}

func dmPayload(r *kit.RNG, s *dmref.Symbol, sender string) string {
	n := r.Range(1, s.Data)
	if r.Chance(1, 3) {
		n = s.Data
	}
	var sb strings.Builder
	class := r.Intn(3)
	if sender != "library" {
		class = 2
	}
	if class == 0 {
		n *= 2 // digit pairs
	}
	for i := 0; i < n; i++ {
		switch class {
		case 0:
			sb.WriteByte(byte('0' + r.Intn(10)))
		case 1:
			sb.WriteByte(byte('A' + r.Intn(26)))
		default:
			// printable ASCII without digit pairs (the reference sender does not compact them)
			c := byte(33 + r.Intn(94))
			if c >= '0' && c <= '9' {
				c = 'x'
			}
			sb.WriteByte(c)
		}
	}
	return sb.String()
}

func (s *symbol05) randomPlan(r *kit.RNG) []Fault05 {
	var fs []Fault05
	full := r.Chance(1, 3) // every block at exactly t, every copy at 3
	for b := 0; b < s.numBlocks(); b++ {
		tot, ec := s.blockLen(b)
		t := ec / 2
		n := t
		if !full {
			switch r.Intn(4) {
			case 0:
				n = 0
			case 1:
				n = t
			default:
				n = r.Range(0, t)
			}
		}
		if n == 0 {
			continue
		}
		idx := r.Sample(tot, n)
		// bias: first/last codeword, last data / first EC, the extra codeword of long blocks
		special := []int{0, tot - 1, tot - ec - 1, tot - ec}
		for i := range idx {
			if r.Chance(1, 6) {
				c := special[r.Intn(len(special))]
				dup := false
				for _, x := range idx {
					if x == c {
						dup = true
					}
				}
				if !dup && c >= 0 && c < tot {
					idx[i] = c
				}
			}
		}
		for _, j := range idx {
			d := r.Range(1, 255)
			switch r.Intn(6) {
			case 0:
				d = 0xFF
			case 1:
				d = 1 << uint(r.Intn(8))
			}
			fs = append(fs, Fault05{Kind: "cw", Block: b, Index: j, Delta: d})
		}
	}
	if s.tr.Sym == "qr" {
		for _, k := range []string{"fmt1", "fmt2", "ver1", "ver2"} {
			size := 15
			if k[0] == 'v' {
				if s.tr.V < 7 {
					continue
				}
				size = 18
			}
			n := 3
			if !full {
				n = r.Intn(4)
			}
			for _, i := range r.Sample(size, n) {
				fs = append(fs, Fault05{Kind: k, Index: i})
			}
		}
	}
	return fs
}

// ---------------------------------------------------------------- jobs

type job05 struct {
	kind  string // "qrsweep" | "dmsweep" | "seeded"
	v, lv int
	dm    int
	n     int
}

func jobs05(tier string) []job05 {
	var j []job05
	// big sweeps first (load balance); thorough repeats every sweep with
	// other payloads and masks
	reps := 1
	if tier == "thorough" {
		reps = 10
	}
	for rep := 0; rep < reps; rep++ {
		for v := 40; v >= 1; v-- {
			for l := 0; l < 4; l++ {
				j = append(j, job05{kind: "qrsweep", v: v, lv: l})
			}
		}
		for i := len(dmref.Symbols) - 1; i >= 0; i-- {
			j = append(j, job05{kind: "dmsweep", dm: i})
			if dmref.Symbols[i].Rows == 144 || rep > 0 {
				j = append(j, job05{kind: "dmsweep", dm: i, lv: 1}) // reference sender too
			}
		}
	}
	ns := 3000
	if tier == "thorough" {
		ns = 150000
	}
	for i := 0; i < ns; i++ {
		j = append(j, job05{kind: "seeded"})
		if i%4 == 0 {
			j = append(j, job05{kind: "reuse"})
		}
	}
	return j
}

func report05(c *kit.Ctx, tr *Trace05, f *fail, minimise bool) {
	if minimise && strings.HasPrefix(f.class, "fault/") {
		tr = min05(tr, f.class)
	}
	key := f.class + "/" + tr.Sym
	if tr.Sym == "dm" {
		key += fmt.Sprintf("/%dx%d", tr.Rows, tr.Cols)
	}
	c.Violate(f.class, key, f.detail, tr)
}

func exec05(tr *Trace05, probe func(string)) (outcome string, f *fail) {
	s, skip, f := send(tr)
	if f != nil {
		return "", f
	}
	if s == nil {
		return "skip:" + skip, nil
	}
	out, f := s.control(probe)
	if f != nil || out != "ok" {
		return out, f
	}
	if tr.Sweep {
		return "ok", s.sweep(nil, probe, nil)
	}
	return "ok", s.check(tr.Faults, probe)
}

// execChain05 executes tr after its Prev history on fresh shared decoder
// objects (or on a fresh decoder per decode when there is no history).
func execChain05(tr *Trace05, probe func(string)) (string, *fail) {
	old := sharedDec
	defer func() { sharedDec = old }()
	if len(tr.Prev) == 0 {
		sharedDec = nil
		return exec05(tr, probe)
	}
	sharedDec = newDecoders05()
	held05.res, stale05 = nil, ""
	for _, p := range tr.Prev {
		q := *p
		q.Prev = nil
		exec05(&q, func(string) {})
	}
	q := *tr
	q.Prev = nil
	out, f := exec05(&q, probe)
	if f != nil {
		f.detail += fmt.Sprintf(" [the same decoder object had decoded %d other symbol(s) before]", len(tr.Prev))
	}
	return out, f
}

// reportWithHistory05 reports a failure seen on re-used decoder objects: as a
// single-symbol trace if it also fails on a fresh decoder, otherwise with the
// minimised list of symbols decoded before on the same objects.
func reportWithHistory05(c *kit.Ctx, tr *Trace05, f *fail, hist []*Trace05) {
	t1 := *tr
	t1.Prev = nil
	if _, f2 := execChain05(&t1, func(string) {}); f2 != nil {
		report05(c, &t1, f2, true)
		return
	}
	t2 := *tr
	t2.Prev = hist
	_, f3 := execChain05(&t2, func(string) {})
	if f3 == nil {
		report05(c, &t1, f, false) // will not reproduce: surfaces as a harness error, never silently dropped
		return
	}
	keep := kit.DDMinN(len(hist), 200, func(idx []int) bool {
		t3 := *tr
		t3.Prev = nil
		for _, i := range idx {
			t3.Prev = append(t3.Prev, hist[i])
		}
		if len(t3.Prev) == 0 {
			return false
		}
		_, f4 := execChain05(&t3, func(string) {})
		return f4 != nil && f4.class == f3.class
	})
	t2.Prev = nil
	for _, i := range keep {
		t2.Prev = append(t2.Prev, hist[i])
	}
	if _, f5 := execChain05(&t2, func(string) {}); f5 != nil {
		f3 = f5
	} else {
		t2.Prev = hist
	}
	f3.class += "/reused-decoder"
	report05(c, &t2, f3, false)
}

// sweep enumerates a single-codeword fault at every codeword of every block.
func (s *symbol05) sweep(r *kit.RNG, probe func(string), count *int64) *fail {
	for b := 0; b < s.numBlocks(); b++ {
		tot, ec := s.blockLen(b)
		if ec < 2 {
			continue
		}
		for j := 0; j < tot; j++ {
			d := 0xFF
			if r != nil {
				d = r.Range(1, 255)
			}
			if f := s.check([]Fault05{{Kind: "cw", Block: b, Index: j, Delta: d}}, probe); f != nil {
				f.detail += fmt.Sprintf(" [single-codeword sweep: block %d index %d delta %d]", b, j, d)
				s.tr.Faults = []Fault05{{Kind: "cw", Block: b, Index: j, Delta: d}}
				return f
			}
			if count != nil {
				*count++
			}
		}
	}
	return nil
}

func min05(tr *Trace05, class string) *Trace05 {
	test := func(t *Trace05) bool {
		_, f := execChain05(t, func(string) {})
		return f != nil && f.class == class
	}
	cur := *tr
	cur.Sweep = false
	if !test(&cur) {
		return tr
	}
	keep := kit.DDMinN(len(cur.Faults), 300, func(idx []int) bool {
		t := cur
		t.Faults = nil
		for _, i := range idx {
			t.Faults = append(t.Faults, cur.Faults[i])
		}
		return test(&t)
	})
	var fs []Fault05
	for _, i := range keep {
		fs = append(fs, cur.Faults[i])
	}
	cur.Faults = fs
	// shorter text
	for len(cur.Text) > 1 {
		t := cur
		t.Text = cur.Text[:len(cur.Text)/2]
		if !test(&t) {
			break
		}
		cur = t
	}
	// simpler deltas
	for i := range cur.Faults {
		if len(cur.Faults) > 24 {
			break
		}
		if cur.Faults[i].Kind == "cw" && cur.Faults[i].Delta != 1 {
			old := cur.Faults[i].Delta
			cur.Faults[i].Delta = 1
			if !test(&cur) {
				cur.Faults[i].Delta = old
			}
		}
	}
	return &cur
}

// seededTrace05 draws one symbol (symbology, size, level, mask, sender, payload).
func seededTrace05(r *kit.RNG) *Trace05 {
	var tr *Trace05
	if r.Chance(3, 5) {
		v := r.Range(1, 40)
		if r.Chance(1, 4) {
			v = []int{1, 6, 7, 9, 10, 26, 27, 40}[r.Intn(8)]
		}
		tr = &Trace05{Sym: "qr", Sender: "library", V: v, Level: r.Intn(4), Mask: r.Intn(8)}
		if r.Chance(1, 4) {
			tr.Sender = "reference"
		}
		tr.Text = qrPayload(r, v, tr.Level, tr.Sender)
	} else {
		i := r.Intn(len(dmref.Symbols))
		if r.Chance(1, 5) {
			i = 23 // 144x144: the special interleave
		}
		s := &dmref.Symbols[i]
		tr = &Trace05{Sym: "dm", Sender: "library", Rows: s.Rows, Cols: s.Cols}
		if r.Chance(1, 4) {
			tr.Sender = "reference"
		}
		tr.Text = dmPayload(r, s, tr.Sender)
	}
	return tr
}

// C05 returns the runner spec.
func C05() *kit.Spec {
	cache := map[string][]job05{}
	jobs := func(tier string) []job05 {
		if j, ok := cache[tier]; ok {
			return j
		}
		j := jobs05(tier)
		cache[tier] = j
		return j
	}
	return &kit.Spec{
		Property: "C05",
		Engine:   "chansim",
		Level:    "fault_enumeration",
		Rule: "one evaluation = one damaged symbol decoded by the real decoder. Sender: the library's own encoder (primary) or the harness's reference sender; medium: module matrix with faults placed through the harness's independent layout model; budget: <= floor(ec/2) codewords per RS block (arbitrary non-zero 8-bit deltas), <= 3 flips in each format copy, <= 3 in each version copy. " +
			"Enumerated: a single-codeword fault at every codeword of every block of one symbol per (QR version, level) [all 160 pairs; thorough: ten payload/mask choices each] and of all 30 Data Matrix sizes. Seeded: multi-fault plans incl. every block at exactly t with 3 flips in all four info copies. Reuse: chains of 3-8 symbols of different shapes, two damage plans each, through one long-lived decoder pair (a failure is reported with the minimised list of symbols the decoder object had seen before). distinct_nontrivial = distinct seeded (symbol, plan) hashes with at least one fault",
		StateMetric: "distinct (symbol shape, sender, payload, fault plan) hashes; per-sweep counters",
		Assumptions: []string{
			"faults are placed by the harness's own QR/Data Matrix layout models; every library-made symbol is first read through that layout and must show zero reference syndromes (otherwise the symbol is skipped and counted, never reported)",
			"\"up to floor(ec/2)\" includes none: an undamaged symbol (printable ASCII payload; library-made, or reference-made with zero syndromes) that is not decoded to its text is a violation; only the deliberately non-standard reference arrangement of 144x144 may be rejected",
			"nothing beyond the stated budget is injected",
		},
		Components: map[string]string{
			"qrcode/encoder.Encoder_encode, datamatrix.DataMatrixWriter": "real (primary sender)",
			"qrref.BuildSymbol / dmref.BuildSymbol":                      "stub sender (reference, secondary)",
			"module-matrix medium":                                       "simulated (harness)",
			"qrcode/decoder.Decoder, datamatrix/decoder.Decoder":         "real (receiver)",
			"qrref / dmref layouts, gf":                                  "reference model (harness)",
		},
		FaultKinds:  []string{"cw", "fmt1", "fmt2", "ver1", "ver2"},
		SimTimeNote: "none: no timers; logical steps = symbols transmitted",
		NumRuns:     func(tier string) int { return len(jobs(tier)) },
		Run: func(c *kit.Ctx) {
			j := jobs(c.Tier)[c.Run]
			r := c.RNG
			watchCtx = c
			probe := func(p string) { c.Count(p, 1) }
			var tr *Trace05
			switch j.kind {
			case "qrsweep":
				tr = &Trace05{Sym: "qr", Sender: "library", V: j.v, Level: j.lv, Mask: r.Intn(8), Sweep: true}
				tr.Text = qrPayload(r, j.v, j.lv, "library")
			case "dmsweep":
				s := &dmref.Symbols[j.dm]
				tr = &Trace05{Sym: "dm", Sender: "library", Rows: s.Rows, Cols: s.Cols, Sweep: true}
				if j.lv == 1 {
					tr.Sender = "reference"
				}
				tr.Text = dmPayload(r, s, tr.Sender)
			case "reuse":
				// one long-lived decoder pair fed a chain of damaged symbols of
				// different shapes (so block lengths and EC counts change between calls)
				sharedDec = newDecoders05()
				held05.res, stale05 = nil, ""
				defer func() { sharedDec = nil }()
				var hist []*Trace05
				n := r.Range(3, 8)
				for k := 0; k < n; k++ {
					t := seededTrace05(r)
					if r.Chance(1, 2) {
						// small shapes: many different EC counts per unit of work
						if t.Sym == "qr" {
							t.V = r.Range(1, 8)
							t.Text = qrPayload(r, t.V, t.Level, t.Sender)
						} else {
							sy := &dmref.Symbols[r.Intn(len(dmref.Symbols))]
							t.Rows, t.Cols = sy.Rows, sy.Cols
							t.Text = dmPayload(r, sy, t.Sender)
						}
					}
					sy, _, f := send(t)
					if f != nil || sy == nil {
						continue
					}
					out, f := sy.control(func(string) {})
					if f != nil {
						reportWithHistory05(c, t, f, hist)
						return
					}
					if out != "ok" {
						continue
					}
					for q := 0; q < 2; q++ {
						t2 := *t
						t2.Faults = sy.randomPlan(r)
						c.Eval(kit.HashJSON(&t2)^uint64(len(hist)), len(t2.Faults) > 0)
						c.Steps(1)
						if f := sy.check(t2.Faults, probe); f != nil {
							reportWithHistory05(c, &t2, f, hist)
							return
						}
						hist = append(hist, &t2)
					}
					c.Count("reuse.symbols_decoded_on_a_reused_decoder", 1)
				}
				c.Count("reuse.chains", 1)
				c.Event(fmt.Sprintf("reuse %d", len(hist)))
				return
			default:
				tr = seededTrace05(r)
			}
			s, skip, f := send(tr)
			if f != nil {
				report05(c, tr, f, false)
				return
			}
			if s == nil {
				c.Count("control.skipped_sender_refused", 1)
				c.Note("sample_sender_refusal", tr.Sym+": "+skip)
				return
			}
			out, f := s.control(probe)
			c.Count("fault.none(control)", 1)
			if f != nil {
				c.Eval(kit.HashJSON(tr), false)
				report05(c, tr, f, false)
				return
			}
			if out != "ok" {
				c.Count("control.failed_outside_scope", 1)
				c.Note("sample_control_failed_outside_scope", s.describe()+": "+out)
				return
			}
			c.Count("control.ok."+tr.Sender, 1)
			c.Distinct("symbol_shapes(symbology,version|size,level,sender)", kit.Hash64([]byte(fmt.Sprintf("%s %d %d %d %d %s", tr.Sym, tr.V, tr.Level, tr.Rows, tr.Cols, tr.Sender))))
			c.Distinct("qr_masks_used", uint64(s.mask+1)*uint64(len(tr.Sym)))
			if tr.Sweep {
				var cnt int64
				f := s.sweep(r, probe, &cnt)
				c.EvalN(cnt)
				c.Steps(cnt)
				c.Count("sweep.single_codeword_every_position."+tr.Sym, 1)
				c.Event(fmt.Sprintf("sweep %s %d", s.describe(), cnt))
				if f != nil {
					report05(c, tr, f, true)
				}
				return
			}
			nplans := 6
			for i := 0; i < nplans; i++ {
				t := *tr
				t.Faults = s.randomPlan(r)
				if c.Run%97 == 5 && i == 0 {
					c.Sample(&t)
				}
				c.Eval(kit.HashJSON(&t), len(t.Faults) > 0)
				c.Event(fmt.Sprintf("%x", kit.HashJSON(&t)))
				c.Steps(1)
				if f := s.check(t.Faults, probe); f != nil {
					report05(c, &t, f, true)
					return
				}
			}
		},
		Replay: func(c *kit.Ctx, raw json.RawMessage) {
			tr := &Trace05{}
			if err := json.Unmarshal(raw, tr); err != nil {
				c.Fatal("bad trace: " + err.Error())
				return
			}
			watchCtx = c
			_, f := execChain05(tr, func(string) {})
			if f != nil {
				if len(tr.Prev) > 0 {
					f.class += "/reused-decoder"
				}
				report05(c, tr, f, false)
			}
		},
	}
}

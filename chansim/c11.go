package chansim

import (
	"encoding/json"
	"fmt"
	"strings"

	"github.com/makiuchi-d/gozxing"
	"github.com/makiuchi-d/gozxing/aztec"
	azdec "github.com/makiuchi-d/gozxing/aztec/decoder"
	azdet "github.com/makiuchi-d/gozxing/aztec/detector"

	az "verif/chansim/aztecref"
	"verif/kit"
)

// Trace11 is one Aztec symbol sent through the medium.
type Trace11 struct {
	Compact bool     `json:"compact"`
	Layers  int      `json:"layers"`
	Text    []int    `json:"text"`   // bytes (ISO-8859-1)
	EncSeed uint64   `json:"enc"`    // seed of the encoder's free choices
	Faults  [][2]int `json:"faults"` // (word index, non-zero delta)
	// ModeFaults damages 4-bit words of the mode message (reader path only):
	// (word index, delta 1..15); its own Reed-Solomon code over GF(16) repairs
	// two words (compact, 5 check words) or three (full range, 6 check words)
	ModeFaults [][2]int `json:"modefaults,omitempty"`
	Path    string   `json:"path"`   // "decoder" | "reader"
	Scale   int      `json:"scale,omitempty"`
	Rot     int      `json:"rot,omitempty"`   // quarter turns
	Quiet   int      `json:"quiet,omitempty"` // quiet zone in modules
	// MinCheck: least number of check words the sender accepts (0 = the
	// recommended three); 1 or 2 gives symbols filled to the brim
	MinCheck int `json:"mincheck,omitempty"`
	// Prime, if set, is a symbol decoded FIRST on the same Decoder / AztecReader
	// instance (instance-reuse history); the oracle applies to both.
	Prime *Trace11 `json:"prime,omitempty"`
	// Mirror (prime symbols on the reader path only): the picture shows the
	// mirror image of the symbol. Reading mirror images is something the reader
	// offers, not something the property demands: such a prime only makes
	// history on the instance, its own outcome is not judged.
	Mirror bool `json:"mirror,omitempty"`
	// ECI (prime symbols only): the message opens with FLG(n) announcing this
	// extended channel interpretation. The property's statement names the five
	// code tables and binary shift, not ECIs: such a prime only makes history
	// on the instance (a character set left behind must not reach the next
	// symbol), its own outcome is not judged.
	ECI int `json:"eci,omitempty"`
}

type rngChooser struct{ r *kit.RNG }

func (c rngChooser) Intn(n int) int { return c.r.Intn(n) }

func latin1(b []int) string {
	rs := make([]rune, len(b))
	for i, v := range b {
		rs[i] = rune(v)
	}
	return string(rs)
}

func bytesOf(b []int) []byte {
	out := make([]byte, len(b))
	for i, v := range b {
		out[i] = byte(v)
	}
	return out
}

// build11 runs the stub sender.
func build11(tr *Trace11, probe func(string)) *az.Symbol {
	bits := az.HighLevel(bytesOf(tr.Text), rngChooser{kit.NewRNG(tr.EncSeed)}, az.Probe(probe))
	if tr.ECI > 0 {
		bits = append(az.ECIPrefix(tr.ECI), bits...)
	}
	words := az.Stuff(bits, az.WordSize(tr.Layers), az.Probe(probe))
	mc := tr.MinCheck
	if mc == 0 {
		mc = 3
	}
	return az.BuildMin(words, tr.Layers, tr.Compact, mc)
}

func damage11(s *az.Symbol, faults [][2]int, probe func(string)) (m [][]bool, within bool, n int) {
	m = make([][]bool, s.Size)
	for y := range m {
		m[y] = append([]bool(nil), s.M[y]...)
	}
	ws := az.WordSize(s.Layers)
	seen := map[int]bool{}
	for _, f := range faults {
		w, d := f[0], f[1]
		if w < 0 || w >= len(s.Words) || d <= 0 || d >= 1<<uint(ws) || seen[w] {
			continue
		}
		seen[w] = true
		for b, p := range s.WordMods[w] {
			if (d>>uint(ws-1-b))&1 == 1 {
				m[p.Y][p.X] = !m[p.Y][p.X]
			}
		}
		n++
		probe("fault.cw")
	}
	t := (len(s.Words) - s.DataWords) / 2
	if n == t && n > 0 {
		probe("probe.at_exactly_t")
	}
	return m, n <= t, n
}

func rotate(m [][]bool, k int) [][]bool {
	for ; k > 0; k-- {
		n := len(m)
		r := make([][]bool, n)
		for y := range r {
			r[y] = make([]bool, n)
			for x := range r[y] {
				r[y][x] = m[x][n-1-y] // counter-clockwise quarter turn
			}
		}
		m = r
	}
	return m
}

type inst11 struct {
	dec *azdec.Decoder
	rd  *aztec.AztecReader
	// the result this instance returned last, and a private copy of the text it
	// showed then: what was handed to the caller must stay what it was
	held     interface{ GetText() string }
	heldText string
}

func (in *inst11) hold(res interface{ GetText() string }) {
	in.held = res
	in.heldText = string(append([]byte(nil), res.GetText()...))
}

func exec11(tr *Trace11, probe func(string)) (string, *fail) {
	in := &inst11{dec: azdec.NewDecoder(), rd: aztec.NewAztecReader()}
	if tr.Prime != nil {
		p := *tr.Prime
		p.Prime = nil
		p.Path, p.Scale, p.Rot, p.Quiet = tr.Path, tr.Scale, tr.Rot, tr.Quiet
		probe("probe.instance_reused_after_other_symbol")
		if out, f := exec11on(in, &p, probe); f != nil && !p.Mirror && p.ECI == 0 {
			f.class = "prime/" + f.class
			return out, f
		}
		if p.Mirror {
			probe("probe.instance_reused_after_mirror_image")
		}
		if p.ECI != 0 {
			probe("probe.instance_reused_after_symbol_with_eci")
		}
	}
	out, f := exec11on(in, tr, probe)
	if f != nil && tr.Prime != nil {
		f.class = "reused/" + f.class
		f.detail += fmt.Sprintf(" [same Decoder/AztecReader instance previously decoded a compact=%v %d-layer symbol]", tr.Prime.Compact, tr.Prime.Layers)
	}
	return out, f
}

func exec11on(in *inst11, tr *Trace11, probe func(string)) (string, *fail) {
	if tr.Layers < 1 || (tr.Compact && tr.Layers > 4) || tr.Layers > 32 {
		return "skip:bad size", nil
	}
	s := build11(tr, probe)
	if s == nil {
		return "skip:text does not fit", nil
	}
	m, within, nf := damage11(s, tr.Faults, probe)
	if !within {
		return "skip:beyond budget", nil
	}
	if tr.Path == "reader" && len(tr.ModeFaults) > 0 {
		tm := 3
		if tr.Compact {
			tm = 2
		}
		seen := map[int]bool{}
		for _, f := range tr.ModeFaults {
			w, d := f[0], f[1]
			if w < 0 || w >= len(s.ModeMods) || d < 1 || d > 15 || seen[w] {
				continue
			}
			seen[w] = true
		}
		if len(seen) > tm {
			return "skip:mode message damaged beyond its budget", nil
		}
		for w := range seen {
			d := 0
			for _, f := range tr.ModeFaults {
				if f[0] == w {
					d = f[1]
					break
				}
			}
			for b, p := range s.ModeMods[w] {
				if (d>>uint(3-b))&1 == 1 {
					m[p.Y][p.X] = !m[p.Y][p.X]
				}
			}
			probe("fault.mode")
		}
		if len(seen) == tm {
			probe("probe.mode_message_at_exactly_t")
		}
	}
	want := latin1(tr.Text)
	what := fmt.Sprintf("%s, %d damaged codewords (t=%d), path %s", s, nf, (len(s.Words)-s.DataWords)/2, tr.Path)
	var got string
	var err error
	var pan interface{}
	prevHeld, prevText := in.held, in.heldText
	func() {
		enter("hang/"+tr.Path, "hang/"+tr.Path, tr, what)
		defer leave()
		defer func() {
			if r := recover(); r != nil {
				pan = r
			}
		}()
		if tr.Path == "decoder" {
			dr := azdet.NewAztecDetectorResult(toBitMatrix(m), nil, s.Compact, s.DataWords, s.Layers)
			res, e := in.dec.Decode(dr)
			if e != nil {
				err = e
				return
			}
			got = res.GetText()
			in.hold(res)
			return
		}
		what += fmt.Sprintf(" (scale %d, %d quarter turns, quiet zone %d)", tr.Scale, tr.Rot, tr.Quiet)
		rm := rotate(m, tr.Rot)
		if tr.Mirror {
			t := make([][]bool, len(rm))
			for y := range t {
				t[y] = make([]bool, len(rm))
				for x := range t[y] {
					t[y][x] = rm[x][y]
				}
			}
			rm = t
		}
		sc, q := tr.Scale, tr.Quiet
		if sc < 1 {
			sc = 1
		}
		n := len(rm)
		bm, _ := gozxing.NewBitMatrix((n+2*q)*sc, (n+2*q)*sc)
		for y := 0; y < n; y++ {
			for x := 0; x < n; x++ {
				if rm[y][x] {
					bm.SetRegion((x+q)*sc, (y+q)*sc, sc, sc)
				}
			}
		}
		bmp, e := gozxing.NewBinaryBitmapFromImage(bm)
		if e != nil {
			err = e
			return
		}
		// optional hints an application may pass (a pure function of the trace)
		var hints map[gozxing.DecodeHintType]interface{}
		if hsel := (tr.EncSeed >> 7) % 4; hsel != 0 {
			hints = map[gozxing.DecodeHintType]interface{}{}
			npts := 0
			if hsel&1 != 0 {
				hints[gozxing.DecodeHintType_NEED_RESULT_POINT_CALLBACK] = gozxing.ResultPointCallback(func(gozxing.ResultPoint) { npts++ })
			}
			if hsel&2 != 0 {
				hints[gozxing.DecodeHintType_TRY_HARDER] = true
				hints[gozxing.DecodeHintType_CHARACTER_SET] = "ISO-8859-1"
			}
			probe("probe.reader_given_optional_hints")
		}
		res, e := in.rd.Decode(bmp, hints)
		if e != nil {
			err = e
			return
		}
		got = res.GetText()
		in.hold(res)
		if res.GetBarcodeFormat() != gozxing.BarcodeFormat_AZTEC {
			err = fmt.Errorf("format %v", res.GetBarcodeFormat())
		}
	}()
	cfg := "fault"
	if nf == 0 {
		cfg = "control"
		probe("fault.none(control)")
	}
	if prevHeld != nil && prevHeld.GetText() != prevText {
		return "", &fail{cfg + "/result-changes-later", fmt.Sprintf("%s: the result this instance returned for the previous symbol showed %q then and shows %q now", what, trunc(prevText), trunc(prevHeld.GetText()))}
	}
	switch {
	case pan != nil:
		return "", &fail{cfg + "/panic", fmt.Sprintf("%s: panic: %v", what, pan)}
	case err != nil:
		kind := "error"
		if _, ok := err.(gozxing.NotFoundException); ok {
			kind = "notfound"
		} else if _, ok := err.(gozxing.FormatException); ok {
			kind = "format"
		}
		return "", &fail{cfg + "/" + kind + "/" + tr.Path, fmt.Sprintf("%s: %T %v", what, err, err)}
	case got != want:
		return "", &fail{cfg + "/text/" + tr.Path, fmt.Sprintf("%s: decoded %q, sent %q", what, trunc(got), trunc(want))}
	}
	return "ok", nil
}

// ---------------------------------------------------------------- text generation

func genAztecText(r *kit.RNG, n int) []int {
	var out []int
	if r.Chance(1, 12) {
		// GS (FNC1) early in the message: after one letter, after two digits, first
		switch r.Intn(3) {
		case 0:
			out = append(out, 'A'+r.Intn(26), 29)
		case 1:
			out = append(out, '0'+r.Intn(10), '0'+r.Intn(10), 29)
		default:
			out = append(out, 29)
		}
	}
	if r.Chance(1, 10) {
		// almost nothing but two-character punctuation codes: more than two
		// decoded bytes per five message bits
		pairs := []string{"\r\n", ". ", ", ", ": "}
		if r.Bool() {
			out = append(out, 'O', 'K')
		}
		for len(out) < n {
			for _, c := range []byte(pairs[r.Intn(4)]) {
				out = append(out, int(c))
			}
		}
		if len(out) > n && n >= 2 {
			out = out[:n-n%2]
		}
		return out
	}
	for len(out) < n {
		seg := r.Range(1, 12)
		switch r.Intn(9) {
		case 0:
			for i := 0; i < seg; i++ {
				out = append(out, 'A'+r.Intn(26))
			}
		case 1:
			for i := 0; i < seg; i++ {
				out = append(out, 'a'+r.Intn(26))
			}
		case 2:
			for i := 0; i < seg; i++ {
				out = append(out, '0'+r.Intn(10))
			}
		case 3:
			p := "!\"#$%&'()*+,-./:;<=>?[]{}"
			for i := 0; i < seg && i < 4; i++ {
				out = append(out, int(p[r.Intn(len(p))]))
			}
		case 4:
			mixed := []int{1, 2, 7, 8, 9, 10, 13, 27, 28, 29, 31, '@', '\\', '^', '_', '`', '|', '~', 127}
			for i := 0; i < seg && i < 4; i++ {
				out = append(out, mixed[r.Intn(len(mixed))])
			}
		case 5:
			pairs := []string{"\r\n", ". ", ", ", ": "}
			cnt := 1
			if r.Chance(1, 3) {
				cnt = r.Range(3, 14) // a run of two-character codes (many bytes per code word)
			}
			for k := 0; k < cnt; k++ {
				for _, c := range []byte(pairs[r.Intn(4)]) {
					out = append(out, int(c))
				}
			}
		case 6:
			cnt := seg
			if r.Chance(1, 4) {
				cnt = r.Range(32, 70) // forces the long binary-shift form
			}
			if r.Chance(1, 10) {
				cnt = r.Range(250, 1100) // one long-form shift of several hundred bytes (large symbols only)
			}
			for i := 0; i < cnt; i++ {
				out = append(out, 128+r.Intn(128))
			}
		case 7:
			out = append(out, ' ')
		default:
			out = append(out, []int{0, 14, 20, 26}[r.Intn(4)]) // control characters in no table
		}
	}
	if len(out) > n {
		out = out[:n]
	}
	return out
}

// fit11 finds a text for the size whose encoding fills it as asked.
func fit11(r *kit.RNG, layers int, compact bool, fill int) (*Trace11, *az.Symbol) {
	minCheck := 0
	if fill == 3 {
		minCheck = r.Range(1, 2) // filled to the brim: one or two check words left
		fill = 2
	}
	cap := az.Capacity(layers, compact) - 3
	if minCheck > 0 {
		cap = az.Capacity(layers, compact) - minCheck
	}
	if compact && cap > 64 {
		cap = 64
	}
	ws := az.WordSize(layers)
	maxChars := cap * ws / 4
	target := 1
	switch fill {
	case 0:
		target = r.Range(1, 6)
	case 1:
		target = r.Range(1, maxChars)
	default:
		target = maxChars
	}
	full := genAztecText(r, target)
	seed := r.Uint64() >> 11
	try := func(n int) (*Trace11, *az.Symbol) {
		tr := &Trace11{Compact: compact, Layers: layers, Text: full[:n], EncSeed: seed, MinCheck: minCheck}
		return tr, build11(tr, func(string) {})
	}
	lo, hi := 1, len(full) // largest prefix that fits
	var bestT *Trace11
	var bestS *az.Symbol
	for lo <= hi {
		mid := (lo + hi) / 2
		t, s := try(mid)
		if s != nil {
			bestT, bestS = t, s
			lo = mid + 1
		} else {
			hi = mid - 1
		}
	}
	return bestT, bestS
}

type size11 struct {
	layers  int
	compact bool
}

func sizes11() []size11 {
	var s []size11
	for l := 1; l <= 4; l++ {
		s = append(s, size11{l, true})
	}
	for l := 1; l <= 32; l++ {
		s = append(s, size11{l, false})
	}
	return s
}

type job11 struct {
	kind string // "sweep" | "seeded"
	size size11
}

func jobs11(tier string) []job11 {
	var j []job11
	ss := sizes11()
	for i := len(ss) - 1; i >= 0; i-- {
		j = append(j, job11{"sweep", ss[i]})
	}
	n := 1000
	if tier == "thorough" {
		n = 40000
	}
	for i := 0; i < n; i++ {
		j = append(j, job11{"seeded", ss[i%len(ss)]})
	}
	return j
}

func report11(c *kit.Ctx, tr *Trace11, f *fail, minimise bool) {
	if minimise {
		tr = min11(tr, f.class)
	}
	k := "full"
	if tr.Compact {
		k = "compact"
	}
	key := fmt.Sprintf("%s/%s-%d", f.class, k, tr.Layers)
	if strings.HasSuffix(f.class, "fault/notfound/reader") || strings.HasSuffix(f.class, "control/notfound/reader") {
		// location failures are keyed by the pose class they occur in (symbol
		// family and pixels per module), clean or damaged alike
		key = fmt.Sprintf("notfound/reader/%s@scale%d", k, tr.Scale)
		if tr.Quiet == 0 {
			// a symbol that touches the image border takes the detector's
			// fallback centre search; that path shows no failures on the
			// unchanged tree (0 of 24000 compact poses) and is keyed separately
			key += ",noquietzone"
		}
	}
	c.Violate(f.class, key, f.detail, tr)
}

func min11(tr *Trace11, class string) *Trace11 {
	test := func(t *Trace11) bool {
		_, f := exec11(t, func(string) {})
		return f != nil && f.class == class
	}
	cur := *tr
	if !test(&cur) {
		return tr
	}
	keep := kit.DDMinN(len(cur.Faults), 150, func(idx []int) bool {
		t := cur
		t.Faults = nil
		for _, i := range idx {
			t.Faults = append(t.Faults, cur.Faults[i])
		}
		return test(&t)
	})
	var fs [][2]int
	for _, i := range keep {
		fs = append(fs, cur.Faults[i])
	}
	cur.Faults = fs
	// shorter text (keeping the symbol size)
	budget := 30
	for len(cur.Text) > 1 && budget > 0 {
		budget--
		t := cur
		t.Text = cur.Text[:len(cur.Text)/2]
		if !test(&t) {
			t.Text = cur.Text[len(cur.Text)/2:]
			if !test(&t) {
				break
			}
		}
		cur = t
	}
	if cur.Path == "reader" {
		// (the scale is part of the finding's identity and is never altered)
		for _, alt := range []func(*Trace11){func(t *Trace11) { t.Rot = 0 }, func(t *Trace11) { t.Quiet = 4 }} {
			t := cur
			alt(&t)
			if test(&t) {
				cur = t
			}
		}
	}
	return &cur
}

// C11 returns the runner spec.
func C11() *kit.Spec {
	cache := map[string][]job11{}
	jobs := func(tier string) []job11 {
		if j, ok := cache[tier]; ok {
			return j
		}
		j := jobs11(tier)
		cache[tier] = j
		return j
	}
	return &kit.Spec{
		Property: "C11",
		Engine:   "chansim",
		Level:    "exploration",
		Rule: "one evaluation = one reference-made Aztec symbol (stub sender) decoded by real code: path 'decoder' = aztec/decoder.Decode on the module matrix, path 'reader' = rendered at scale 2..5 with a quiet zone, 0..3 quarter turns, through AztecReader.Decode (white-rectangle finder, bull's-eye, orientation, mode-message RS, grid sampler, decoder). " +
			"All 36 sizes (compact 1-4, full 1-32) in every batch; texts mix the five code tables, latches, P/S and U/S shifts, two-character punctuation codes and both binary-shift forms, the encoder's free choices are seeded; payload tiny / random / filled to capacity. Faults: <= floor(check words/2) codewords XOR-ed with non-zero deltas at their spiral positions (never the bull's-eye or reference grid); on the reader path the mode message's own GF(16) code is loaded with up to two (compact) / three (full range) damaged 4-bit words as well. " +
			"Sweeps put a single-codeword fault on every codeword of one symbol per size (quick: a stride sample for the big sizes). distinct_nontrivial = distinct trace hashes of seeded runs with at least one fault or a rendered path",
		StateMetric: "distinct (size, text, encoder choices, fault plan, pose) traces",
		Assumptions: []string{
			"the sender is the harness's reference encoder (the library has no Aztec writer); its layout half (alignment map, spiral, word packing, field per layer count, generator base 1) was validated against the 14 third-party renderings in aztec/testdata/aztec-1 (all Reed-Solomon syndromes zero), see DESIGN.md 5.3",
			"a clean conforming symbol that is not located or not decoded is C11's own statement and is reported (control/...)",
		},
		Components: map[string]string{
			"Aztec sender (high-level encoder, stuffing, RS, mode message, drawing)": "stub (harness reference encoder)",
			"aztec/detector, common/detector white rectangle, grid sampler":          "real",
			"aztec/decoder (spiral read-out, RS, un-stuffing, high-level decode)":    "real",
			"binariser (HybridBinarizer) on the rendered image":                      "real",
			"module-matrix medium, rendering, rotation":                              "simulated (harness)",
		},
		FaultKinds:  []string{"none(control)", "cw", "mode"},
		SimTimeNote: "none: no timers; logical steps = symbols transmitted",
		NumRuns:     func(tier string) int { return len(jobs(tier)) },
		Run: func(c *kit.Ctx) {
			j := jobs(c.Tier)[c.Run]
			r := c.RNG
			watchCtx = c
			probe := func(p string) { c.Count(p, 1) }
			tr, s := fit11(r, j.size.layers, j.size.compact, []int{0, 1, 2, 0, 1, 2, 3}[r.Intn(7)])
			if s == nil {
				c.Fatal(fmt.Sprintf("reference sender cannot fill size compact=%v layers=%d", j.size.compact, j.size.layers))
				return
			}
			// re-run the sender with probes on
			build11(tr, probe)
			c.Distinct("symbol_sizes", kit.Hash64([]byte(fmt.Sprint(j.size))))
			c.Distinct("data_word_counts(size,words)", kit.Hash64([]byte(fmt.Sprint(j.size, s.DataWords))))
			ws := az.WordSize(s.Layers)
			t := (len(s.Words) - s.DataWords) / 2
			if j.kind == "sweep" {
				tr.Path = "decoder"
				if _, f := exec11(tr, probe); f != nil {
					report11(c, tr, f, true)
					return
				}
				stride := 1
				if c.Tier != "thorough" && len(s.Words) > 300 {
					stride = len(s.Words) / 150
				}
				var cnt int64 = 1
				if t >= 1 {
					for w := 0; w < len(s.Words); w += stride {
						t2 := *tr
						t2.Faults = [][2]int{{w, r.Range(1, 1<<uint(ws)-1)}}
						cnt++
						if _, f := exec11(&t2, probe); f != nil {
							report11(c, &t2, f, true)
							return
						}
					}
				}
				c.EvalN(cnt)
				c.Steps(cnt)
				if stride == 1 {
					c.Count("sweep.single_codeword_every_position", 1)
				} else {
					c.Count("sweep.single_codeword_stride_sample", 1)
				}
				c.Event(fmt.Sprintf("sweep %s %d", s, cnt))
				return
			}
			// seeded: control through both paths, then fault plans
			for _, path := range []string{"decoder", "reader"} {
				t2 := *tr
				t2.Path = path
				if path == "reader" {
					t2.Scale, t2.Rot, t2.Quiet = r.Range(2, 5), r.Intn(4), r.Range(0, 6)
					if s.Size > 100 && t2.Scale > 3 {
						t2.Scale = 3
					}
				}
				c.Eval(kit.HashJSON(&t2), path == "reader")
				c.Event(fmt.Sprintf("%x", kit.HashJSON(&t2)))
				c.Steps(1)
				if c.Run%41 == 3 && path == "reader" {
					c.Sample(&t2)
				}
				if _, f := exec11(&t2, probe); f != nil {
					report11(c, &t2, f, true)
					return
				}
				c.Count("control.ok."+path, 1)
			}
			// the two largest sizes can carry one binary-shift run of up to 2078
			// bytes (the long form's 11-bit length): a short prefix and one such run
			if !j.size.compact && j.size.layers >= 31 {
				n := r.Range(1890, 2078)
				if r.Chance(1, 3) {
					n = []int{1914, 1915, 2047, 2078}[r.Intn(4)]
				}
				var txt []int
				for _, ch := range "ID " {
					txt = append(txt, int(ch))
				}
				for i := 0; i < n; i++ {
					txt = append(txt, 128+r.Intn(128))
				}
				lt := &Trace11{Compact: false, Layers: j.size.layers, Text: txt, EncSeed: r.Uint64() >> 11, Path: "decoder"}
				if build11(lt, func(string) {}) != nil {
					probe("probe.binary_shift_run_of_1890_to_2078_bytes")
					c.Eval(kit.HashJSON(lt), false)
					c.Steps(1)
					if _, f := exec11(lt, probe); f != nil {
						report11(c, lt, f, false)
						return
					}
				}
			}
			// instance-reuse history: the same Decoder / AztecReader first decodes
			// a symbol of the sibling family with the same layer count (or, for
			// more than 4 layers, of another size), then this one
			{
				sib := size11{j.size.layers, !j.size.compact}
				if j.size.layers > 4 {
					all := sizes11()
					sib = all[r.Intn(len(all))]
				}
				if ptr, ps := fit11(r, sib.layers, sib.compact, r.Intn(3)); ps != nil {
					for _, path := range []string{"decoder", "reader"} {
						t2 := *tr
						t2.Prime = ptr
						t2.Path = path
						if path == "reader" {
							t2.Scale, t2.Rot, t2.Quiet = 3, r.Intn(4), r.Range(2, 5)
							if r.Chance(1, 3) {
								pm := *ptr
								pm.Mirror = true
								t2.Prime = &pm
							}
						}
						if r.Chance(1, 3) {
							// the earlier symbol announces another character set
							pe := *t2.Prime
							pe.ECI = []int{26, 20, 25, 7, 29, 4, 28, 30, 22}[r.Intn(9)]
							if build11(&pe, func(string) {}) != nil {
								t2.Prime = &pe
							}
						}
						c.Eval(kit.HashJSON(&t2), true)
						c.Event(fmt.Sprintf("%x", kit.HashJSON(&t2)))
						c.Steps(2)
						if _, f := exec11(&t2, probe); f != nil {
							report11(c, &t2, f, true)
							return
						}
					}
				}
			}
			if t < 1 {
				return
			}
			for i := 0; i < 4; i++ {
				t2 := *tr
				n := t
				if r.Chance(1, 2) {
					n = r.Range(1, t)
				}
				blot := r.Chance(1, 4) // a solid dark or light blot: the damaged words read all ones / all zeros
				pool := len(s.Words)
				if blot && s.DataWords >= n {
					pool = s.DataWords // data words only
				}
				for _, w := range r.Sample(pool, n) {
					d := r.Range(1, 1<<uint(ws)-1)
					if r.Chance(1, 5) {
						d = 1<<uint(ws) - 1
					}
					if blot {
						if r.Bool() {
							d = s.Words[w] // -> reads all zeros
						} else {
							d = s.Words[w] ^ (1<<uint(ws) - 1) // -> reads all ones
						}
						if d == 0 {
							d = 1
						}
						probe("probe.blot_fault")
					}
					t2.Faults = append(t2.Faults, [2]int{w, d})
				}
				t2.Path = "decoder"
				if i%2 == 1 {
					t2.Path = "reader"
					t2.Scale, t2.Rot, t2.Quiet = r.Range(2, 4), r.Intn(4), r.Range(0, 6)
					if s.Size > 100 {
						t2.Scale = 2
					}
					if r.Chance(1, 2) {
						// the mode message has its own code: up to two (compact) or three
						// (full range) of its 4-bit words damaged as well
						tm := 3
						if s.Compact {
							tm = 2
						}
						k := tm
						if r.Chance(1, 2) {
							k = r.Range(1, tm)
						}
						if i == 3 && r.Chance(1, 2) {
							t2.Faults = nil // mode message only, data codewords perfect
						}
						for _, w := range r.Sample(len(s.ModeMods), k) {
							t2.ModeFaults = append(t2.ModeFaults, [2]int{w, r.Range(1, 15)})
						}
					}
				}
				c.Eval(kit.HashJSON(&t2), true)
				c.Event(fmt.Sprintf("%x", kit.HashJSON(&t2)))
				c.Steps(1)
				if _, f := exec11(&t2, probe); f != nil {
					report11(c, &t2, f, true)
					return
				}
			}
		},
		Replay: func(c *kit.Ctx, raw json.RawMessage) {
			tr := &Trace11{}
			if err := json.Unmarshal(raw, tr); err != nil {
				c.Fatal("bad trace: " + err.Error())
				return
			}
			watchCtx = c
			if _, f := exec11(tr, func(string) {}); f != nil {
				report11(c, tr, f, false)
			}
		},
	}
}

// Package qrref is the harness's independent model of the QR Code symbol
// structure (ISO/IEC 18004): block structure, function-module map, codeword
// placement, format/version words and a minimal byte-mode sender. Nothing here
// is read from /repo. Provenance of the two 4x40 tables: the compact layout
// used by a different public implementation (Project Nayuki's QR generator) of
// ISO 18004 table 9, written down from memory and cross-checked once against
// the closed formula for the codeword totals and the standard's published
// capacities (2953/2331/1663/1273 bytes for version 40).
package qrref

// Levels in the order L, M, Q, H. FormatBits gives the two-bit indicator.
const (
	L = iota
	M
	Q
	H
)

var LevelNames = []string{"L", "M", "Q", "H"}
var FormatBits = []int{1, 0, 3, 2}

var ecPerBlock = [4][41]int{
	{-1, 7, 10, 15, 20, 26, 18, 20, 24, 30, 18, 20, 24, 26, 30, 22, 24, 28, 30, 28, 28, 28, 28, 30, 30, 26, 28, 30, 30, 30, 30, 30, 30, 30, 30, 30, 30, 30, 30, 30, 30},
	{-1, 10, 16, 26, 18, 24, 16, 18, 22, 22, 26, 30, 22, 22, 24, 24, 28, 28, 26, 26, 26, 26, 28, 28, 28, 28, 28, 28, 28, 28, 28, 28, 28, 28, 28, 28, 28, 28, 28, 28, 28},
	{-1, 13, 22, 18, 26, 18, 24, 18, 22, 20, 24, 28, 26, 24, 20, 30, 24, 28, 28, 26, 30, 28, 30, 30, 30, 30, 28, 30, 30, 30, 30, 30, 30, 30, 30, 30, 30, 30, 30, 30, 30},
	{-1, 17, 28, 22, 16, 22, 28, 26, 26, 24, 28, 24, 28, 22, 24, 24, 30, 28, 28, 26, 28, 30, 24, 30, 30, 30, 30, 30, 30, 30, 30, 30, 30, 30, 30, 30, 30, 30, 30, 30, 30},
}

var numBlocks = [4][41]int{
	{-1, 1, 1, 1, 1, 1, 2, 2, 2, 2, 4, 4, 4, 4, 4, 6, 6, 6, 6, 7, 8, 8, 9, 9, 10, 12, 12, 12, 13, 14, 15, 16, 17, 18, 19, 19, 20, 21, 22, 24, 25},
	{-1, 1, 1, 1, 2, 2, 4, 4, 4, 5, 5, 5, 8, 9, 9, 10, 10, 11, 13, 14, 16, 17, 17, 18, 20, 21, 23, 25, 26, 28, 29, 31, 33, 35, 37, 38, 40, 43, 45, 47, 49},
	{-1, 1, 1, 2, 2, 4, 4, 6, 6, 8, 8, 8, 10, 12, 16, 12, 17, 16, 18, 21, 20, 23, 23, 25, 27, 29, 34, 34, 35, 38, 40, 43, 45, 48, 51, 53, 56, 59, 62, 65, 68},
	{-1, 1, 1, 2, 4, 4, 4, 5, 6, 8, 8, 11, 11, 16, 16, 18, 16, 19, 21, 25, 25, 25, 34, 30, 32, 35, 37, 40, 42, 45, 48, 51, 54, 57, 60, 63, 66, 70, 74, 77, 81},
}

// RawModules is the number of data modules of a version (closed formula).
func RawModules(v int) int {
	r := (16*v+128)*v + 64
	if v >= 2 {
		na := v/7 + 2
		r -= (25*na-10)*na - 55
		if v >= 7 {
			r -= 36
		}
	}
	return r
}

// TotalCodewords of a version.
func TotalCodewords(v int) int { return RawModules(v) / 8 }

// Blocks describes the Reed-Solomon block structure of (version, level).
type Blocks struct {
	N         int // number of blocks
	EC        int // ec codewords per block
	NumShort  int // blocks 0..NumShort-1 carry ShortData data codewords, the rest one more
	ShortData int
	Total     int
}

func BlocksOf(v, level int) Blocks {
	tot := TotalCodewords(v)
	n := numBlocks[level][v]
	ec := ecPerBlock[level][v]
	return Blocks{N: n, EC: ec, NumShort: n - tot%n, ShortData: tot/n - ec, Total: tot}
}

// DataLen returns the number of data codewords of block b.
func (b Blocks) DataLen(i int) int {
	if i < b.NumShort {
		return b.ShortData
	}
	return b.ShortData + 1
}

// DataCodewords is the data capacity in codewords.
func (b Blocks) DataCodewords() int { return b.Total - b.N*b.EC }

// StreamIndex returns the position in the interleaved codeword stream of
// codeword j of block i (j < DataLen(i) is data, otherwise EC number j-DataLen(i)).
func (b Blocks) StreamIndex(i, j int) int {
	dl := b.DataLen(i)
	if j < dl {
		if j < b.ShortData {
			return j*b.N + i
		}
		// the extra data codeword of the long blocks
		return b.ShortData*b.N + (i - b.NumShort)
	}
	e := j - dl
	return b.DataCodewords() + e*b.N + i
}

// AlignmentCentres by the closed formula.
func AlignmentCentres(v int) []int {
	if v == 1 {
		return nil
	}
	n := v/7 + 2
	var step int
	if v == 32 {
		step = 26
	} else {
		step = (v*4 + n*2 + 1) / (n*2 - 2) * 2
	}
	res := make([]int, n)
	res[0] = 6
	pos := v*4 + 17 - 7
	for i := n - 1; i >= 1; i-- {
		res[i] = pos
		pos -= step
	}
	return res
}

package qrref

import "verif/chansim/gf"

// XY is a module position: X column, Y row.
type XY struct{ X, Y int }

// Layout is the module-level structure of one version.
type Layout struct {
	V, N     int
	Function [][]bool // [y][x]
	DataPos  []XY     // module of the i-th bit of the interleaved stream (MSB of codeword 0 first)
	Fmt1     []XY     // position of format bit i (0 = LSB) in copy 1 / copy 2
	Fmt2     []XY
	Ver1     []XY // version bit i (0 = LSB): top-right copy / bottom-left copy (empty for v<7)
	Ver2     []XY
}

var layouts [41]*Layout

// LayoutOf builds (and caches) the layout of version v from first principles.
func LayoutOf(v int) *Layout {
	if layouts[v] != nil {
		return layouts[v]
	}
	n := 17 + 4*v
	l := &Layout{V: v, N: n}
	l.Function = make([][]bool, n)
	for y := range l.Function {
		l.Function[y] = make([]bool, n)
	}
	mark := func(x, y int) {
		if x >= 0 && y >= 0 && x < n && y < n {
			l.Function[y][x] = true
		}
	}
	// finders with separators (8x8 corners)
	for y := 0; y < 8; y++ {
		for x := 0; x < 8; x++ {
			mark(x, y)
			mark(n-1-x, y)
			mark(x, n-1-y)
		}
	}
	// timing
	for i := 0; i < n; i++ {
		mark(i, 6)
		mark(6, i)
	}
	// alignment
	cs := AlignmentCentres(v)
	for i, cy := range cs {
		for j, cx := range cs {
			if (i == 0 && j == 0) || (i == 0 && j == len(cs)-1) || (i == len(cs)-1 && j == 0) {
				continue
			}
			for dy := -2; dy <= 2; dy++ {
				for dx := -2; dx <= 2; dx++ {
					mark(cx+dx, cy+dy)
				}
			}
		}
	}
	// format info
	for i := 0; i < 15; i++ {
		var p XY
		switch {
		case i <= 5:
			p = XY{8, i}
		case i == 6:
			p = XY{8, 7}
		case i == 7:
			p = XY{8, 8}
		case i == 8:
			p = XY{7, 8}
		default:
			p = XY{14 - i, 8}
		}
		l.Fmt1 = append(l.Fmt1, p)
		if i < 8 {
			l.Fmt2 = append(l.Fmt2, XY{n - 1 - i, 8})
		} else {
			l.Fmt2 = append(l.Fmt2, XY{8, n - 15 + i})
		}
	}
	for _, p := range l.Fmt1 {
		mark(p.X, p.Y)
	}
	for _, p := range l.Fmt2 {
		mark(p.X, p.Y)
	}
	mark(8, n-8) // dark module
	// version info
	if v >= 7 {
		for i := 0; i < 18; i++ {
			a, b := n-11+i%3, i/3
			l.Ver1 = append(l.Ver1, XY{a, b})
			l.Ver2 = append(l.Ver2, XY{b, a})
			mark(a, b)
			mark(b, a)
		}
	}
	// zig-zag
	for right := n - 1; right >= 1; right -= 2 {
		if right == 6 {
			right = 5
		}
		for vert := 0; vert < n; vert++ {
			for j := 0; j < 2; j++ {
				x := right - j
				upward := (right+1)&2 == 0
				y := vert
				if upward {
					y = n - 1 - vert
				}
				if !l.Function[y][x] {
					l.DataPos = append(l.DataPos, XY{x, y})
				}
			}
		}
	}
	layouts[v] = l
	return l
}

// CodewordModules returns the eight modules (MSB first) of stream codeword s.
func (l *Layout) CodewordModules(s int) []XY { return l.DataPos[8*s : 8*s+8] }

// MaskBit reports whether mask pattern m inverts module (x, y).
func MaskBit(m, x, y int) bool {
	i, j := y, x
	switch m {
	case 0:
		return (i+j)%2 == 0
	case 1:
		return i%2 == 0
	case 2:
		return j%3 == 0
	case 3:
		return (i+j)%3 == 0
	case 4:
		return (i/2+j/3)%2 == 0
	case 5:
		return (i*j)%2+(i*j)%3 == 0
	case 6:
		return ((i*j)%2+(i*j)%3)%2 == 0
	default:
		return ((i+j)%2+(i*j)%3)%2 == 0
	}
}

func bch(data, bits, gen, genBits int) int {
	r := data << uint(genBits-1)
	for i := bits + genBits - 2; i >= genBits-1; i-- {
		if r&(1<<uint(i)) != 0 {
			r ^= gen << uint(i-(genBits-1))
		}
	}
	return data<<uint(genBits-1) | r
}

// FormatWord is the masked 15-bit format information.
func FormatWord(level, mask int) int {
	return bch(FormatBits[level]<<3|mask, 5, 0x537, 11) ^ 0x5412
}

// VersionWord is the 18-bit version information.
func VersionWord(v int) int { return bch(v, 6, 0x1F25, 13) }

// ReadStream reads the interleaved codeword stream off a module matrix
// (get(x,y) = dark), undoing mask m.
func (l *Layout) ReadStream(get func(x, y int) bool, m int) []int {
	tot := TotalCodewords(l.V)
	out := make([]int, tot)
	for s := 0; s < tot; s++ {
		v := 0
		for _, p := range l.CodewordModules(s) {
			b := get(p.X, p.Y) != MaskBit(m, p.X, p.Y)
			v <<= 1
			if b {
				v |= 1
			}
		}
		out[s] = v
	}
	return out
}

// Deinterleave splits a stream into per-block words (data then ec).
func Deinterleave(b Blocks, stream []int) [][]int {
	out := make([][]int, b.N)
	for i := 0; i < b.N; i++ {
		w := make([]int, b.DataLen(i)+b.EC)
		for j := range w {
			w[j] = stream[b.StreamIndex(i, j)]
		}
		out[i] = w
	}
	return out
}

// BuildSymbol is the minimal reference sender: byte mode, given version,
// level and mask. It returns the module matrix [y][x] (true = dark) or nil if
// the payload does not fit.
func BuildSymbol(v, level, mask int, payload []byte) [][]bool {
	b := BlocksOf(v, level)
	capBits := b.DataCodewords() * 8
	countBits := 8
	if v >= 10 {
		countBits = 16
	}
	if 4+countBits+8*len(payload) > capBits {
		return nil
	}
	var bits []bool
	put := func(val, n int) {
		for i := n - 1; i >= 0; i-- {
			bits = append(bits, (val>>uint(i))&1 == 1)
		}
	}
	put(4, 4)
	put(len(payload), countBits)
	for _, c := range payload {
		put(int(c), 8)
	}
	for i := 0; i < 4 && len(bits) < capBits; i++ {
		bits = append(bits, false)
	}
	for len(bits)%8 != 0 {
		bits = append(bits, false)
	}
	data := make([]int, 0, b.DataCodewords())
	for i := 0; i < len(bits); i += 8 {
		x := 0
		for j := 0; j < 8; j++ {
			x <<= 1
			if bits[i+j] {
				x |= 1
			}
		}
		data = append(data, x)
	}
	for pad := 0; len(data) < b.DataCodewords(); pad++ {
		if pad%2 == 0 {
			data = append(data, 0xEC)
		} else {
			data = append(data, 0x11)
		}
	}
	// split into blocks (sequentially), RS, interleave
	stream := make([]int, b.Total)
	off := 0
	for i := 0; i < b.N; i++ {
		dl := b.DataLen(i)
		w := gf.QR256.Encode(data[off:off+dl], b.EC)
		off += dl
		for j, c := range w {
			stream[b.StreamIndex(i, j)] = c
		}
	}
	l := LayoutOf(v)
	n := l.N
	m := make([][]bool, n)
	for y := range m {
		m[y] = make([]bool, n)
	}
	// function patterns
	finder := func(cx, cy int) {
		for dy := -4; dy <= 4; dy++ {
			for dx := -4; dx <= 4; dx++ {
				x, y := cx+dx, cy+dy
				if x < 0 || y < 0 || x >= n || y >= n {
					continue
				}
				d := dx
				if d < 0 {
					d = -d
				}
				e := dy
				if e < 0 {
					e = -e
				}
				if e > d {
					d = e
				}
				m[y][x] = d != 2 && d != 4
			}
		}
	}
	finder(3, 3)
	finder(n-4, 3)
	finder(3, n-4)
	for i := 8; i < n-8; i++ {
		m[6][i] = i%2 == 0
		m[i][6] = i%2 == 0
	}
	cs := AlignmentCentres(v)
	for i, cy := range cs {
		for j, cx := range cs {
			if (i == 0 && j == 0) || (i == 0 && j == len(cs)-1) || (i == len(cs)-1 && j == 0) {
				continue
			}
			for dy := -2; dy <= 2; dy++ {
				for dx := -2; dx <= 2; dx++ {
					d := dx
					if d < 0 {
						d = -d
					}
					e := dy
					if e < 0 {
						e = -e
					}
					if e > d {
						d = e
					}
					m[cy+dy][cx+dx] = d != 1
				}
			}
		}
	}
	m[n-8][8] = true
	fw := FormatWord(level, mask)
	for i := 0; i < 15; i++ {
		bit := (fw>>uint(i))&1 == 1
		m[l.Fmt1[i].Y][l.Fmt1[i].X] = bit
		m[l.Fmt2[i].Y][l.Fmt2[i].X] = bit
	}
	if v >= 7 {
		vw := VersionWord(v)
		for i := 0; i < 18; i++ {
			bit := (vw>>uint(i))&1 == 1
			m[l.Ver1[i].Y][l.Ver1[i].X] = bit
			m[l.Ver2[i].Y][l.Ver2[i].X] = bit
		}
	}
	// data
	for i, p := range l.DataPos {
		bit := false
		if i/8 < len(stream) {
			bit = (stream[i/8]>>uint(7-i%8))&1 == 1
		}
		m[p.Y][p.X] = bit != MaskBit(mask, p.X, p.Y)
	}
	return m
}

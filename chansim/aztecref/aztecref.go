// Package aztecref is the harness's reference Aztec Code sender (the library
// has no Aztec writer): high-level encoding over the five code tables with
// latches, shifts and both binary-shift forms, bit stuffing, Reed-Solomon
// check words in the field the layer count demands, mode message with its
// GF(16) check words, bull's-eye, orientation marks, reference grid and the
// layer spiral (ISO/IEC 24778). It is a STUB in the sense of the evidence
// files: everything downstream of it (detector, sampler, decoder) is real.
// Nothing here is read from /repo.
package aztecref

import (
	"fmt"

	"verif/chansim/gf"
)

// Modes.
const (
	Upper = iota
	Lower
	Mixed
	Punct
	Digit
)

var modeNames = []string{"U", "L", "M", "P", "D"}

// code tables: character -> code per mode (-1: not present)
var charCode [5][256]int

// two-character punctuation codes
var punctPairs = map[string]int{"\r\n": 2, ". ": 3, ", ": 4, ": ": 5}

func init() {
	for m := range charCode {
		for c := range charCode[m] {
			charCode[m][c] = -1
		}
	}
	charCode[Upper][' '] = 1
	for c := 'A'; c <= 'Z'; c++ {
		charCode[Upper][c] = int(c-'A') + 2
	}
	charCode[Lower][' '] = 1
	for c := 'a'; c <= 'z'; c++ {
		charCode[Lower][c] = int(c-'a') + 2
	}
	charCode[Digit][' '] = 1
	for c := '0'; c <= '9'; c++ {
		charCode[Digit][c] = int(c-'0') + 2
	}
	charCode[Digit][','] = 12
	charCode[Digit]['.'] = 13
	mixed := []byte{0, ' ', 1, 2, 3, 4, 5, 6, 7, 8, 9, 10, 11, 12, 13, 27, 28, 29, 30, 31, '@', '\\', '^', '_', '`', '|', '~', 127}
	for i, c := range mixed {
		if i >= 1 {
			charCode[Mixed][c] = i
		}
	}
	punct := []byte{0, '\r', 0, 0, 0, 0, '!', '"', '#', '$', '%', '&', '\'', '(', ')', '*', '+', ',', '-', '.', '/', ':', ';', '<', '=', '>', '?', '[', ']', '{', '}'}
	for i, c := range punct {
		if c != 0 {
			charCode[Punct][c] = i
		}
	}
}

// latch[from][to] = list of (code, bits) to emit; nil if from == to.
type step struct{ code, bits int }

var latch [5][5][]step

func init() {
	// direct latches
	direct := map[[2]int]step{
		{Upper, Lower}: {28, 5}, {Upper, Mixed}: {29, 5}, {Upper, Digit}: {30, 5},
		{Lower, Mixed}: {29, 5}, {Lower, Digit}: {30, 5},
		{Mixed, Lower}: {28, 5}, {Mixed, Upper}: {29, 5}, {Mixed, Punct}: {30, 5},
		{Punct, Upper}: {31, 5},
		{Digit, Upper}: {14, 4},
	}
	// shortest paths by breadth-first search over the latch graph
	for from := 0; from < 5; from++ {
		dist := map[int][]step{from: {}}
		queue := []int{from}
		for len(queue) > 0 {
			cur := queue[0]
			queue = queue[1:]
			for to := 0; to < 5; to++ {
				if s, ok := direct[[2]int{cur, to}]; ok {
					if _, seen := dist[to]; !seen {
						dist[to] = append(append([]step(nil), dist[cur]...), s)
						queue = append(queue, to)
					}
				}
			}
		}
		for to := 0; to < 5; to++ {
			if to != from {
				latch[from][to] = dist[to]
			}
		}
	}
}

// Chooser makes the encoder's free choices (shift or latch, when to use
// binary shift); any choice yields a valid encoding of the same text.
type Chooser interface {
	Intn(n int) int
}

type bitsBuf struct{ b []bool }

func (x *bitsBuf) put(v, n int) {
	for i := n - 1; i >= 0; i-- {
		x.b = append(x.b, (v>>uint(i))&1 == 1)
	}
}

func width(mode int) int {
	if mode == Digit {
		return 4
	}
	return 5
}

// Probe receives the names of the encoder paths taken.
type Probe func(string)

// ECIPrefix is the bit sequence that, at the start of a message (Upper mode),
// announces an extended channel interpretation: shift to Punct, FLG(n), the
// digit count n (1..6) and the decimal digits as Digit-table codes; the
// message continues in Upper mode.
func ECIPrefix(eci int) []bool {
	var ds []int
	for v := eci; ; v /= 10 {
		ds = append([]int{v % 10}, ds...)
		if v < 10 {
			break
		}
	}
	out := &bitsBuf{}
	out.put(0, 5) // P/S in Upper
	out.put(0, 5) // FLG(n) in Punct
	out.put(len(ds), 3)
	for _, d := range ds {
		out.put(d+2, 4)
	}
	return out.b
}

// HighLevel encodes text into the Aztec bit stream.
func HighLevel(text []byte, ch Chooser, probe Probe) []bool {
	out := &bitsBuf{}
	mode := Upper
	i := 0
	n := len(text)
	// one message in three is encoded "efficiently": no optional binary
	// shifts, pair codes and direct codes always taken, a latch to Punct as
	// soon as two pair codes follow each other (the shortest encodings have
	// the highest ratio of decoded bytes to message bits)
	eff := ch.Intn(3) == 0
	coin := func(k int) int {
		if eff {
			return 1 // never 0: the optional detours below are all guarded by "== 0" or "> 0" tests chosen accordingly
		}
		return ch.Intn(k)
	}
	inAny := func(c byte) bool {
		for m := 0; m < 5; m++ {
			if charCode[m][c] >= 0 {
				return true
			}
		}
		return false
	}
	goTo := func(to int) {
		for _, s := range latch[mode][to] {
			out.put(s.code, s.bits)
		}
		probe("latch." + modeNames[mode] + modeNames[to])
		mode = to
	}
	for i < n {
		c := text[i]
		// binary shift: mandatory for bytes in no table, optional otherwise
		if !inAny(c) || (!eff && ch.Intn(12) == 0) {
			j := i + 1
			for j < n && (!inAny(text[j]) || ch.Intn(3) > 0) && j-i < 2078 {
				j++
			}
			if ch.Intn(6) == 0 && n-i > 32 {
				lim := 80
				if ch.Intn(4) == 0 {
					lim = 900 // runs of several hundred bytes in one long-form shift
				}
				j = i + 32 + ch.Intn(minInt(n-i-31, lim)) // long form on purpose
				if j > n {
					j = n
				}
			}
			if mode == Punct || mode == Digit {
				goTo(Upper)
			}
			out.put(31, 5)
			cnt := j - i
			if cnt <= 31 {
				out.put(cnt, 5)
				probe("binary_shift.short")
			} else {
				out.put(0, 5)
				out.put(cnt-31, 11)
				probe("binary_shift.long")
			}
			for ; i < j; i++ {
				out.put(int(text[i]), 8)
			}
			continue
		}
		// FNC1 as FLG(0) (Punct code 0 followed by three zero bits): decodes to
		// the GS character (29), which is also in the Mixed table
		if c == 29 && ch.Intn(2) == 0 {
			if mode != Punct {
				out.put(0, width(mode)) // P/S
				probe("shift.PS")
			}
			out.put(0, 5)
			out.put(0, 3)
			probe("flg0")
			i++
			continue
		}
		// two-character punctuation codes
		if i+1 < n {
			if code, ok := punctPairs[string(text[i:i+2])]; ok && coin(4) > 0 {
				nextIsPair := false
				if i+3 < n {
					_, nextIsPair = punctPairs[string(text[i+2:i+4])]
				}
				if mode != Punct && ((eff && nextIsPair) || (!eff && ch.Intn(3) == 0)) {
					goTo(Punct) // latch, so that following pairs are single 5-bit codes
				}
				if mode == Punct {
					out.put(code, 5)
				} else {
					out.put(0, width(mode)) // P/S exists in U, L, M, D
					out.put(code, 5)
					probe("shift.PS")
				}
				probe("punct_pair")
				i += 2
				continue
			}
		}
		if code := charCode[mode][c]; code >= 0 && coin(10) > 0 {
			out.put(code, width(mode))
			i++
			continue
		}
		// shifts
		if charCode[Punct][c] >= 0 && mode != Punct && ch.Intn(2) == 0 {
			out.put(0, width(mode))
			out.put(charCode[Punct][c], 5)
			probe("shift.PS")
			i++
			continue
		}
		if charCode[Upper][c] >= 0 && (mode == Lower || mode == Digit) && ch.Intn(2) == 0 {
			if mode == Lower {
				out.put(28, 5)
			} else {
				out.put(15, 4)
			}
			out.put(charCode[Upper][c], 5)
			probe("shift.US")
			i++
			continue
		}
		// latch to a mode that has the character
		var cands []int
		for m := 0; m < 5; m++ {
			if m != mode && charCode[m][c] >= 0 {
				cands = append(cands, m)
			}
		}
		if len(cands) == 0 {
			// only the current mode has it (the coin above said "not directly")
			out.put(charCode[mode][c], width(mode))
			i++
			continue
		}
		to := cands[ch.Intn(len(cands))]
		goTo(to)
		out.put(charCode[mode][c], width(mode))
		i++
	}
	return out.b
}

func minInt(a, b int) int {
	if a < b {
		return a
	}
	return b
}

// WordSize and field by layer count.
func WordSize(layers int) int {
	switch {
	case layers <= 2:
		return 6
	case layers <= 8:
		return 8
	case layers <= 22:
		return 10
	}
	return 12
}

func FieldOf(layers int) *gf.Field {
	switch WordSize(layers) {
	case 6:
		return gf.Aztec64
	case 8:
		return gf.DM256
	case 10:
		return gf.Aztec1024
	}
	return gf.Aztec4096
}

func TotalBits(layers int, compact bool) int {
	n := 112
	if compact {
		n = 88
	}
	return (n + 16*layers) * layers
}

// Stuff performs bit stuffing into words; the last word is padded with ones.
func Stuff(bits []bool, ws int, probe Probe) []int {
	var words []int
	mask := (1 << uint(ws)) - 2
	n := len(bits)
	for i := 0; i < n; i += ws {
		w := 0
		for j := 0; j < ws; j++ {
			if i+j >= n || bits[i+j] {
				w |= 1 << uint(ws-1-j)
			}
		}
		switch {
		case w&mask == mask:
			words = append(words, w&mask)
			i--
			probe("stuff.all_ones")
		case w&mask == 0:
			words = append(words, w|1)
			i--
			probe("stuff.all_zeros")
		default:
			words = append(words, w)
		}
	}
	return words
}

// XY is a module position.
type XY struct{ X, Y int }

// Symbol is a finished reference symbol.
type Symbol struct {
	Compact   bool
	Layers    int
	DataWords int
	Words     []int  // data + check words
	WordMods  [][]XY // module positions of each word's bits (MSB first)
	ModeMods  [][]XY // module positions of each 4-bit mode-message word's bits (MSB first)
	Size      int
	M         [][]bool // [y][x]
}

// Capacity returns the total number of words of a size.
func Capacity(layers int, compact bool) int { return TotalBits(layers, compact) / WordSize(layers) }

// Build draws the symbol for already stuffed data words. It returns nil if
// the words do not fit (at least 3 check words are demanded).
func Build(data []int, layers int, compact bool) *Symbol {
	return BuildMin(data, layers, compact, 3)
}

// BuildMin is Build with the least number of check words the caller accepts
// (the mode message can state any number of data words; three check words is
// the least the standard recommends, not a structural limit).
func BuildMin(data []int, layers int, compact bool, minCheck int) *Symbol {
	ws := WordSize(layers)
	total := TotalBits(layers, compact)
	nwords := total / ws
	if minCheck < 1 {
		minCheck = 1
	}
	if len(data) < 1 || len(data) > nwords-minCheck {
		return nil
	}
	if compact && len(data) > 64 || !compact && len(data) > 2048 {
		return nil
	}
	f := FieldOf(layers)
	words := f.Encode(data, nwords-len(data))
	startPad := total % ws
	msg := make([]bool, 0, total)
	owner := make([][2]int, 0, total) // (word, bit) of each message bit; word -1 for the pad
	for i := 0; i < startPad; i++ {
		msg = append(msg, false)
		owner = append(owner, [2]int{-1, 0})
	}
	for wi, w := range words {
		for b := ws - 1; b >= 0; b-- {
			msg = append(msg, (w>>uint(b))&1 == 1)
			owner = append(owner, [2]int{wi, ws - 1 - b})
		}
	}
	base := layers * 4
	if compact {
		base += 11
	} else {
		base += 14
	}
	amap := make([]int, base)
	size := base
	if compact {
		for i := range amap {
			amap[i] = i
		}
	} else {
		size = base + 1 + 2*((base/2-1)/15)
		oc, c := base/2, size/2
		for i := 0; i < oc; i++ {
			no := i + i/15
			amap[oc-i-1] = c - no - 1
			amap[oc+i] = c + no + 1
		}
	}
	s := &Symbol{Compact: compact, Layers: layers, DataWords: len(data), Words: words, Size: size}
	s.M = make([][]bool, size)
	for y := range s.M {
		s.M[y] = make([]bool, size)
	}
	s.WordMods = make([][]XY, len(words))
	for i := range s.WordMods {
		s.WordMods[i] = make([]XY, ws)
	}
	set := func(bit int, x, y int) {
		if msg[bit] {
			s.M[y][x] = true
		}
		if o := owner[bit]; o[0] >= 0 {
			s.WordMods[o[0]][o[1]] = XY{x, y}
		}
	}
	rowOffset := 0
	for i := 0; i < layers; i++ {
		rowSize := (layers - i) * 4
		if compact {
			rowSize += 9
		} else {
			rowSize += 12
		}
		for j := 0; j < rowSize; j++ {
			co := j * 2
			for k := 0; k < 2; k++ {
				set(rowOffset+co+k, amap[i*2+k], amap[i*2+j])
				set(rowOffset+rowSize*2+co+k, amap[i*2+j], amap[base-1-i*2-k])
				set(rowOffset+rowSize*4+co+k, amap[base-1-i*2-k], amap[base-1-i*2-j])
				set(rowOffset+rowSize*6+co+k, amap[base-1-i*2-j], amap[i*2+k])
			}
		}
		rowOffset += rowSize * 8
	}
	// mode message
	var mm []bool
	put := func(v, n int) {
		for i := n - 1; i >= 0; i-- {
			mm = append(mm, (v>>uint(i))&1 == 1)
		}
	}
	var mwords []int
	if compact {
		put(layers-1, 2)
		put(len(data)-1, 6)
		mwords = nibbles(mm)
		mwords = gf.Aztec16.Encode(mwords, 5)
	} else {
		put(layers-1, 5)
		put(len(data)-1, 11)
		mwords = nibbles(mm)
		mwords = gf.Aztec16.Encode(mwords, 6)
	}
	mm = mm[:0]
	for _, w := range mwords {
		put(w, 4)
	}
	c := size / 2
	dark := func(x, y int) { s.M[y][x] = true }
	// where message bit b sits (the same walk as the drawing below)
	modePos := func(b int) XY {
		if compact {
			switch {
			case b < 7:
				return XY{c - 3 + b, c - 5}
			case b < 14:
				return XY{c + 5, c - 3 + (b - 7)}
			case b < 21:
				return XY{c - 3 + (20 - b), c + 5}
			default:
				return XY{c - 5, c - 3 + (27 - b)}
			}
		}
		o := func(i int) int { return c - 5 + i + i/5 }
		switch {
		case b < 10:
			return XY{o(b), c - 7}
		case b < 20:
			return XY{c + 7, o(b - 10)}
		case b < 30:
			return XY{o(29 - b), c + 7}
		default:
			return XY{c - 7, o(39 - b)}
		}
	}
	for w := range mwords {
		var ps []XY
		for b := 0; b < 4; b++ {
			ps = append(ps, modePos(4*w+b))
		}
		s.ModeMods = append(s.ModeMods, ps)
	}
	if compact {
		for i := 0; i < 7; i++ {
			o := c - 3 + i
			if mm[i] {
				dark(o, c-5)
			}
			if mm[i+7] {
				dark(c+5, o)
			}
			if mm[20-i] {
				dark(o, c+5)
			}
			if mm[27-i] {
				dark(c-5, o)
			}
		}
	} else {
		for i := 0; i < 10; i++ {
			o := c - 5 + i + i/5
			if mm[i] {
				dark(o, c-7)
			}
			if mm[i+10] {
				dark(c+7, o)
			}
			if mm[29-i] {
				dark(o, c+7)
			}
			if mm[39-i] {
				dark(c-7, o)
			}
		}
	}
	// bull's eye and orientation marks
	bs := 7
	if compact {
		bs = 5
	}
	for i := 0; i < bs; i += 2 {
		for j := c - i; j <= c+i; j++ {
			dark(j, c-i)
			dark(j, c+i)
			dark(c-i, j)
			dark(c+i, j)
		}
	}
	dark(c-bs, c-bs)
	dark(c-bs+1, c-bs)
	dark(c-bs, c-bs+1)
	dark(c+bs, c-bs)
	dark(c+bs, c-bs+1)
	dark(c+bs, c+bs-1)
	// reference grid
	if !compact {
		for i, j := 0, 0; i < base/2-1; i, j = i+15, j+16 {
			for k := c & 1; k < size; k += 2 {
				dark(c-j, k)
				dark(c+j, k)
				dark(k, c-j)
				dark(k, c+j)
			}
		}
	}
	return s
}

func nibbles(bits []bool) []int {
	var out []int
	for i := 0; i+4 <= len(bits); i += 4 {
		v := 0
		for j := 0; j < 4; j++ {
			v <<= 1
			if bits[i+j] {
				v |= 1
			}
		}
		out = append(out, v)
	}
	return out
}

func (s *Symbol) String() string {
	k := "full"
	if s.Compact {
		k = "compact"
	}
	return fmt.Sprintf("Aztec %s %d layers (%dx%d), %d data + %d check words of %d bits", k, s.Layers, s.Size, s.Size, s.DataWords, len(s.Words)-s.DataWords, WordSize(s.Layers))
}

package chansim

import (
	"encoding/json"
	"fmt"
	"strings"

	"github.com/makiuchi-d/gozxing"
	"github.com/makiuchi-d/gozxing/oned"

	ref "verif/chansim/onedref"
	"verif/kit"
)

// Trace10 is one 1-D transmission or one writer-side check.
type Trace10 struct {
	Kind     string `json:"kind"`               // "writer" | "writer-wrongcheck" | "reader" | "addon" | "c128" | "c93" | "c128writer" | "c93writer"
	Sym      string `json:"sym"`                // ean13 | ean8 | upca | upce | code128 | code93
	Content  string `json:"content"`            // digits (or text for code128/93 writer checks)
	Pos      int    `json:"pos,omitempty"`      // substitution position (-1: none)
	Repl     int    `json:"repl,omitempty"`     // replacement digit / symbol value
	Vals     []int  `json:"vals,omitempty"`     // Code 128 / Code 93 symbol values (start..check), before the fault
	Addon    string `json:"addon,omitempty"`    // add-on digits
	Par      int    `json:"parity,omitempty"`   // add-on parity pattern
	Scale    int    `json:"scale,omitempty"`    // 0: row handed to DecodeRow; >0: rendered image at this scale
	Hints    int    `json:"hints,omitempty"`    // optional decode hints passed to the reader, bit mask: 1 TRY_HARDER, 2 result-point callback, 4 ALLOWED_EAN_EXTENSIONS {0,2,5}, 8 POSSIBLE_FORMATS (all six), 16 ASSUME_GS1
	HistOnly bool   `json:"histonly,omitempty"` // the call only makes history on the reader instance (hints an honest reader may obey: ASSUME_CODE_39_CHECK_DIGIT=false); its outcome is not judged
	FixK     bool   `json:"fixk,omitempty"`     // Code 93: after the substitution, K is recomputed over data + C (only C fails to verify)
	// Prev lists symbols read earlier on the same reader instances (instance-reuse history)
	Prev []*Trace10 `json:"prev,omitempty"`
}

func digitsOf(s string) []int {
	d := make([]int, len(s))
	for i := range s {
		d[i] = int(s[i] - '0')
	}
	return d
}

func strOf(d []int) string {
	b := make([]byte, len(d))
	for i, v := range d {
		b[i] = byte('0' + v)
	}
	return string(b)
}

var formats = map[string]gozxing.BarcodeFormat{
	"ean13": gozxing.BarcodeFormat_EAN_13, "ean8": gozxing.BarcodeFormat_EAN_8, "upca": gozxing.BarcodeFormat_UPC_A, "upce": gozxing.BarcodeFormat_UPC_E,
	"code128": gozxing.BarcodeFormat_CODE_128, "code93": gozxing.BarcodeFormat_CODE_93,
}

// writerCache: as readerCache, for writer objects (an application keeps one
// writer and encodes number after number with it).
var writerCache map[string]gozxing.Writer

func newWriter(sym string) gozxing.Writer {
	if writerCache != nil {
		if w, ok := writerCache[sym]; ok {
			return w
		}
		w := freshWriter(sym)
		writerCache[sym] = w
		return w
	}
	return freshWriter(sym)
}

func freshWriter(sym string) gozxing.Writer {
	switch sym {
	case "ean13":
		return oned.NewEAN13Writer()
	case "ean8":
		return oned.NewEAN8Writer()
	case "upca":
		return oned.NewUPCAWriter()
	case "upce":
		return oned.NewUPCEWriter()
	case "code128":
		return oned.NewCode128Writer()
	case "code93":
		return oned.NewCode93Writer()
	}
	return nil
}

// instanceKind: trace kinds that run on a kept reader or writer object and
// therefore both make and may need history.
func instanceKind(k string) bool {
	switch k {
	case "reader", "addon", "parity", "c128", "c93", "c39", "writer", "writer-wrongcheck", "c128writer", "c93writer":
		return true
	}
	return false
}

// readerCache, when non-nil, makes newReader hand out one instance per
// symbology for the whole run, so that per-instance scratch buffers carry
// over from one symbol to the next (instance-reuse histories).
var readerCache map[string]gozxing.Reader

func newReader(sym string) gozxing.Reader {
	if readerCache != nil {
		if r, ok := readerCache[sym]; ok {
			return r
		}
		r := freshReader(sym)
		readerCache[sym] = r
		return r
	}
	return freshReader(sym)
}

func freshReader(sym string) gozxing.Reader {
	switch sym {
	case "ean13":
		return oned.NewEAN13Reader()
	case "ean8":
		return oned.NewEAN8Reader()
	case "upca":
		return oned.NewUPCAReader()
	case "upce":
		return oned.NewUPCEReader()
	case "code128":
		return oned.NewCode128Reader()
	case "code93":
		return oned.NewCode93Reader()
	case "code39":
		return oned.NewCode39ReaderWithCheckDigitFlag(true)
	case "code39ext":
		return oned.NewCode39ReaderWithFlags(true, true)
	case "multi":
		return oned.NewMultiFormatUPCEANReader(nil)
	}
	return nil
}

// writerRow asks the real writer for the natural-size symbol and returns its
// modules with the quiet zone stripped.
func writerRow(w gozxing.Writer, sym, content string) (row []bool, err error, pan interface{}) {
	enter("writer/hang", "writer/hang/"+sym, &Trace10{Kind: "writer", Sym: sym, Content: content, Pos: -1}, sym+" writer on "+content)
	defer leave()
	defer func() {
		if r := recover(); r != nil {
			pan = r
		}
	}()
	bm, err := w.Encode(content, formats[sym], 0, 1, nil)
	if err != nil {
		return nil, err, nil
	}
	if bm == nil {
		return nil, fmt.Errorf("nil matrix and nil error"), nil
	}
	lo, hi := -1, -1
	for x := 0; x < bm.GetWidth(); x++ {
		if bm.Get(x, 0) {
			if lo < 0 {
				lo = x
			}
			hi = x
		}
	}
	if lo < 0 {
		return nil, fmt.Errorf("empty symbol"), nil
	}
	for x := lo; x <= hi; x++ {
		row = append(row, bm.Get(x, 0))
	}
	return row, nil, nil
}

var lWidths = [10][4]int{{3, 2, 1, 1}, {2, 2, 2, 1}, {2, 1, 2, 2}, {1, 4, 1, 1}, {1, 1, 3, 2}, {1, 2, 3, 1}, {1, 1, 1, 4}, {1, 3, 1, 2}, {1, 2, 1, 3}, {3, 1, 1, 2}}

func matchLG(runs []int) (int, bool, bool) {
	for d, p := range lWidths {
		if runs[0] == p[0] && runs[1] == p[1] && runs[2] == p[2] && runs[3] == p[3] {
			return d, false, true
		}
		if runs[0] == p[3] && runs[1] == p[2] && runs[2] == p[1] && runs[3] == p[0] {
			return d, true, true
		}
	}
	return 0, false, false
}

// parseUPCEAN reads the digits a UPC/EAN symbol carries off its modules with
// the reference tables (exact widths). It returns the full number incl. the
// parity-encoded digit.
func parseUPCEAN(sym string, row []bool) (string, error) {
	first, runs := ref.RunsOf(row)
	if !first {
		return "", fmt.Errorf("symbol does not start with a bar")
	}
	want := map[string]int{"ean13": 3 + 24 + 5 + 24 + 3, "upca": 3 + 24 + 5 + 24 + 3, "ean8": 3 + 16 + 5 + 16 + 3, "upce": 3 + 24 + 6}[sym]
	if len(runs) != want {
		return "", fmt.Errorf("%s: %d runs, expected %d", sym, len(runs), want)
	}
	guard := func(at, n int) error {
		for i := 0; i < n; i++ {
			if runs[at+i] != 1 {
				return fmt.Errorf("guard run %d has width %d", at+i, runs[at+i])
			}
		}
		return nil
	}
	if err := guard(0, 3); err != nil {
		return "", err
	}
	var out []int
	par := 0
	nleft := map[string]int{"ean13": 6, "upca": 6, "ean8": 4, "upce": 6}[sym]
	p := 3
	for i := 0; i < nleft; i++ {
		d, g, ok := matchLG(runs[p : p+4])
		if !ok {
			return "", fmt.Errorf("left digit %d: runs %v match no L/G pattern", i, runs[p:p+4])
		}
		out = append(out, d)
		par <<= 1
		if g {
			par |= 1
		}
		p += 4
	}
	if sym == "upce" {
		if err := guard(p, 6); err != nil {
			return "", err
		}
		ns, chk, ok := ref.UPCEParityMeaning(par)
		if !ok {
			return "", fmt.Errorf("parity pattern %06b is not a UPC-E pattern", par)
		}
		return strOf(append(append([]int{ns}, out...), chk)), nil
	}
	if err := guard(p, 5); err != nil {
		return "", err
	}
	p += 5
	for i := 0; i < nleft; i++ {
		// R digits: same widths as L (starting with a bar)
		d, g, ok := matchLG(runs[p : p+4])
		if !ok || g {
			return "", fmt.Errorf("right digit %d: runs %v are not an R pattern", i, runs[p:p+4])
		}
		out = append(out, d)
		p += 4
	}
	if err := guard(p, 3); err != nil {
		return "", err
	}
	switch sym {
	case "ean8":
		if par != 0 {
			return "", fmt.Errorf("EAN-8 left half uses G patterns")
		}
		return strOf(out), nil
	case "upca":
		if par != 0 {
			return "", fmt.Errorf("UPC-A left half uses G patterns")
		}
		return strOf(out), nil
	}
	fd, ok := ref.EAN13ParityMeaning(par)
	if !ok {
		return "", fmt.Errorf("parity pattern %06b is not an EAN-13 pattern", par)
	}
	return strOf(append([]int{fd}, out...)), nil
}

// refCheck returns the standard's check digit for a body (number without check digit).
func refCheck(sym string, body []int) int {
	if sym == "upce" {
		return ref.UPCECheck(body)
	}
	return ref.Mod10(body)
}

// verifies reports whether a complete number passes the standard's check.
func verifies(sym string, full []int) bool {
	n := len(full)
	return refCheck(sym, full[:n-1]) == full[n-1]
}

func bodyLen(sym string) int {
	return map[string]int{"ean13": 12, "ean8": 7, "upca": 11, "upce": 7}[sym]
}

// drawUPCEAN draws exactly the digits given (no check recomputation).
func drawUPCEAN(sym string, full []int) ref.Row {
	switch sym {
	case "ean13":
		return ref.EAN13(full)
	case "ean8":
		return ref.EAN8(full)
	case "upca":
		return ref.UPCA(full)
	default:
		return ref.UPCE(full)
	}
}

// toArray pads a row with quiet zones and returns a BitArray at scale 1.
func toArray(row []bool, quiet int) *gozxing.BitArray {
	a := gozxing.NewBitArray(len(row) + 2*quiet)
	for i, v := range row {
		if v {
			a.Set(quiet + i)
		}
	}
	return a
}

type readOut struct {
	held   *gozxing.Result
	format gozxing.BarcodeFormat
	text   string
	ext    string
	raw    []byte
	err    error
	pan    interface{}
}

// read sends a row to the real reader: scale 0 = DecodeRow on a BitArray
// (forward only), scale >= 1 = rendered image through the binariser and the
// full Decode path.
// hintsOf builds the optional hints of a trace (none of them may change which
// numbers verify).
func hintsOf(tr *Trace10) map[gozxing.DecodeHintType]interface{} {
	if tr == nil || tr.Hints == 0 {
		return nil
	}
	h := map[gozxing.DecodeHintType]interface{}{}
	if tr.Hints&1 != 0 {
		h[gozxing.DecodeHintType_TRY_HARDER] = true
	}
	if tr.Hints&2 != 0 {
		h[gozxing.DecodeHintType_NEED_RESULT_POINT_CALLBACK] = gozxing.ResultPointCallback(func(gozxing.ResultPoint) {})
	}
	if tr.Hints&4 != 0 {
		h[gozxing.DecodeHintType_ALLOWED_EAN_EXTENSIONS] = []int{0, 2, 5}
	}
	if tr.Hints&8 != 0 {
		h[gozxing.DecodeHintType_POSSIBLE_FORMATS] = []gozxing.BarcodeFormat{gozxing.BarcodeFormat_EAN_13, gozxing.BarcodeFormat_UPC_A, gozxing.BarcodeFormat_EAN_8, gozxing.BarcodeFormat_UPC_E, gozxing.BarcodeFormat_CODE_128, gozxing.BarcodeFormat_CODE_93}
	}
	if tr.Hints&16 != 0 {
		h[gozxing.DecodeHintType_ASSUME_GS1] = true
	}
	if tr.Hints&32 != 0 {
		h[gozxing.DecodeHintType_ASSUME_CODE_39_CHECK_DIGIT] = false
	}
	if tr.Hints&64 != 0 {
		h[gozxing.DecodeHintType_ASSUME_CODE_39_CHECK_DIGIT] = true
	}
	return h
}

// A Result handed to the caller must stay what it was: the text it showed when
// it was returned had verified check characters. heldResults remembers, per
// reader instance, the last Result returned and a private copy of its text;
// staleNote is set when a later call on the same reader changed it.
type heldResult struct {
	res  *gozxing.Result
	text string
}

var heldResults = map[gozxing.Reader]*heldResult{}
var staleNote string

func takeStale() *fail {
	if staleNote == "" {
		return nil
	}
	f := &fail{"reader/result-changes-later", staleNote}
	staleNote = ""
	return f
}

func read(rd gozxing.Reader, row []bool, scale int) (o readOut) {
	defer func() {
		if h := heldResults[rd]; h != nil && h.res.GetText() != h.text {
			staleNote = fmt.Sprintf("a Result returned earlier by this reader instance showed %q when it was returned and shows %q after a later call on the same reader", h.text, h.res.GetText())
			delete(heldResults, rd)
		}
		if o.held != nil {
			heldResults[rd] = &heldResult{o.held, string(append([]byte(nil), o.text...))}
		}
	}()
	enter("reader/hang", "reader/hang", curTrace10, "1-D reader did not return")
	defer leave()
	defer func() {
		if r := recover(); r != nil {
			o.pan = r
		}
	}()
	var res *gozxing.Result
	var err error
	if scale <= 0 {
		dec, ok := rd.(oned.RowDecoder)
		if !ok {
			o.err = fmt.Errorf("reader is not a RowDecoder")
			return
		}
		res, err = dec.DecodeRow(0, toArray(row, 20), hintsOf(curTrace10))
	} else {
		quiet := 20 * scale
		bm, _ := gozxing.NewBitMatrix(len(row)*scale+2*quiet, 24)
		for i, v := range row {
			if v {
				bm.SetRegion(quiet+i*scale, 0, scale, 24)
			}
		}
		bmp, e := gozxing.NewBinaryBitmapFromImage(bm)
		if e != nil {
			o.err = e
			return
		}
		res, err = rd.Decode(bmp, hintsOf(curTrace10))
	}
	if err != nil {
		o.err = err
		return
	}
	if res == nil {
		o.err = fmt.Errorf("nil result and nil error")
		return
	}
	o.held = res
	o.text = res.GetText()
	o.format = res.GetBarcodeFormat()
	o.raw = res.GetRawBytes()
	if v, ok := res.GetResultMetadata()[gozxing.ResultMetadataType_UPC_EAN_EXTENSION]; ok {
		o.ext = fmt.Sprint(v)
	}
	return
}

func isReaderErr(err error) bool {
	_, ok := err.(gozxing.ReaderException)
	return ok
}

// execChain10 executes tr after its Prev history on fresh shared instances.
func execChain10(tr *Trace10, probe func(string)) (string, *fail) {
	if len(tr.Prev) == 0 {
		old, oldw := readerCache, writerCache
		readerCache, writerCache = nil, nil
		defer func() { readerCache, writerCache = old, oldw }()
		return exec10(tr, probe)
	}
	old, oldw := readerCache, writerCache
	readerCache = map[string]gozxing.Reader{}
	writerCache = map[string]gozxing.Writer{}
	heldResults = map[gozxing.Reader]*heldResult{}
	staleNote = ""
	defer func() { readerCache, writerCache = old, oldw }()
	for _, p := range tr.Prev {
		q := *p
		q.Prev = nil
		exec10(&q, func(string) {})
	}
	q := *tr
	q.Prev = nil
	out, f := exec10(&q, probe)
	if st := takeStale(); st != nil && f == nil {
		f = st
	}
	if f != nil {
		f.class = "reused/" + f.class
		f.detail += fmt.Sprintf(" [the same reader instance had read %d other symbol(s) before]", len(tr.Prev))
	}
	return out, f
}

// curTrace10 is the trace being executed (for hang reports).
var curTrace10 *Trace10

// exec10 evaluates one trace and returns (outcome, failure).
func exec10(tr *Trace10, probe func(string)) (string, *fail) {
	curTrace10 = tr
	switch tr.Kind {
	case "writer":
		// body without check digit -> the emitted symbol carries the standard's check digit
		body := digitsOf(tr.Content)
		row, err, pan := writerRow(newWriter(tr.Sym), tr.Sym, tr.Content)
		if pan != nil {
			return "", &fail{"writer/panic", fmt.Sprintf("%s writer panicked on %q: %v", tr.Sym, tr.Content, pan)}
		}
		if err != nil {
			return "skip:writer refused a body", nil
		}
		got, perr := parseUPCEAN(tr.Sym, row)
		if perr != nil {
			// the symbol is malformed outside the check position: not C10's business
			return "skip:writer output not parseable by the reference: " + perr.Error(), nil
		}
		want := tr.Content + fmt.Sprint(refCheck(tr.Sym, body))
		if got[:len(got)-1] != tr.Content {
			// a well-formed symbol for another number: whatever its check digit is,
			// it is not the check digit of the number the caller asked for
			return "", &fail{"writer/other-number", fmt.Sprintf("%s writer given the body %q emits a well-formed symbol carrying %q: no check digit was computed for the requested number (the standard gives %q)", tr.Sym, tr.Content, got, want)}
		}
		if got != want {
			return "", &fail{"writer/checkdigit", fmt.Sprintf("%s writer given %q emits a symbol carrying %q; the standard's check digit gives %q", tr.Sym, tr.Content, got, want)}
		}
		return "ok", nil
	case "writer-wrongcheck":
		// full number with check digit Repl: accepted iff it is the right one
		full := digitsOf(tr.Content)
		_, err, pan := writerRow(newWriter(tr.Sym), tr.Sym, tr.Content)
		if pan != nil {
			return "", &fail{"writer/panic", fmt.Sprintf("%s writer panicked on %q: %v", tr.Sym, tr.Content, pan)}
		}
		good := verifies(tr.Sym, full)
		if !good && err == nil {
			return "", &fail{"writer/accepts-wrong-check", fmt.Sprintf("%s writer accepted %q whose check digit is wrong (standard: %d)", tr.Sym, tr.Content, refCheck(tr.Sym, full[:len(full)-1]))}
		}
		if good && err != nil {
			return "", &fail{"writer/rejects-right-check", fmt.Sprintf("%s writer refused %q although its check digit is the standard's: %v", tr.Sym, tr.Content, err)}
		}
		return "ok", nil
	case "reader":
		full := digitsOf(tr.Content)
		if len(full) != bodyLen(tr.Sym)+1 {
			return "skip:bad length", nil
		}
		if tr.Pos >= 0 && tr.Pos < len(full) {
			if tr.Repl == full[tr.Pos] || tr.Repl < 0 || tr.Repl > 9 {
				return "skip:no-op substitution", nil
			}
			full = append([]int(nil), full...)
			full[tr.Pos] = tr.Repl
			probe("fault.digit")
			if tr.Sym == "upce" && tr.Pos == 0 && tr.Repl > 1 {
				return "skip:number system > 1 cannot be drawn", nil
			}
		} else {
			probe("fault.none(control)")
		}
		if tr.Sym == "upce" && full[0] > 1 {
			return "skip:number system > 1", nil
		}
		row := drawUPCEAN(tr.Sym, full)
		var multiMisread *fail
		o := read(newReader(tr.Sym), row, tr.Scale)
		ok := verifies(tr.Sym, full)
		carried := strOf(full)
		if tr.Scale > 0 {
			// the multi-format UPC/EAN reader sees the same image: whatever it
			// returns, in whatever format, must verify by that format's rule
			mo := read(newReader("multi"), row, tr.Scale)
			if mo.pan != nil {
				return "", &fail{"multi/panic", fmt.Sprintf("MultiFormatUPCEANReader panicked on %s %s: %v", tr.Sym, carried, mo.pan)}
			}
			if mo.err == nil {
				d := digitsOf(mo.text)
				fsym := map[int]string{13: "ean13", 12: "upca", 8: "ean8"}[len(d)]
				if mo.format == gozxing.BarcodeFormat_UPC_E {
					fsym = "upce"
				}
				if fsym == "" || !verifies(fsym, d) {
					return "", &fail{"multi/returns-unverified", fmt.Sprintf("MultiFormatUPCEANReader returned %q (%v) for a %s symbol carrying %s: its check digit does not verify", mo.text, mo.format, tr.Sym, carried)}
				}
				if !ok && mo.text == carried {
					return "", &fail{"multi/accepts-failed-check", fmt.Sprintf("MultiFormatUPCEANReader returned the carried number %s although its check digit fails", carried)}
				}
				if !ok {
					probe(fmt.Sprintf("probe.multi_format_misread_that_verifies.%s->%s", tr.Sym, fsym))
					multiMisread = &fail{"multi/misread-verifies/" + tr.Sym + "->" + fsym, fmt.Sprintf("MultiFormatUPCEANReader read a %s symbol carrying %s (check fails; substitution pos %d -> %d, scale %d) as the %s number %q, which verifies", tr.Sym, carried, tr.Pos, tr.Repl, tr.Scale, fsym, mo.text)}
				}
				probe("probe.multi_format_result_verified")
			}
		}
		out, f := judgeUPCEAN(tr, o, carried, ok, probe)
		if f == nil && multiMisread != nil {
			return out, multiMisread
		}
		return out, f
	case "parity":
		// Content: the digits drawn (EAN-13: six left + six right; UPC-E: six),
		// Par: the parity pattern of the left half (bit 5 = first digit, 1 = G).
		// The pattern encodes the EAN-13 first digit / the UPC-E number system
		// and check digit; 54 / 44 of the 64 patterns encode nothing.
		d := digitsOf(tr.Content)
		var row ref.Row
		var carried []int
		meaning := false
		if tr.Sym == "ean13" {
			if len(d) != 12 {
				return "skip:bad length", nil
			}
			row = ref.EAN13WithParity(d, tr.Par)
			if fd, ok := ref.EAN13ParityMeaning(tr.Par); ok {
				meaning = true
				carried = append([]int{fd}, d...)
			}
		} else {
			if len(d) != 6 {
				return "skip:bad length", nil
			}
			row = ref.UPCEWithParity(d, tr.Par)
			if ns, chk, ok := ref.UPCEParityMeaning(tr.Par); ok {
				meaning = true
				carried = append(append([]int{ns}, d...), chk)
			}
		}
		probe("fault.parity_pattern")
		o := read(newReader(tr.Sym), row, tr.Scale)
		what := fmt.Sprintf("%s symbol drawing %s with left-half parity pattern %06b (scale %d)", tr.Sym, tr.Content, tr.Par, tr.Scale)
		if o.pan != nil {
			return "", &fail{"reader/panic", what + fmt.Sprintf(": reader panicked: %v", o.pan)}
		}
		if o.err != nil {
			if !isReaderErr(o.err) {
				probe("probe.error_of_another_type_than_ReaderException")
			}
			if meaning && verifies(tr.Sym, carried) {
				if _, isCk := o.err.(gozxing.ChecksumException); isCk {
					return "", &fail{"reader/rejects-valid-check", what + ": carries " + strOf(carried) + ", whose check digit verifies; the reader reports a checksum error"}
				}
				probe("probe.valid_symbol_not_read(outside_C10)")
				return "skip:valid symbol not read", nil
			}
			probe("probe.invalid_symbol_rejected")
			return "ok", nil
		}
		switch {
		case !meaning:
			return "", &fail{"reader/accepts-unassigned-parity", what + fmt.Sprintf(": the pattern encodes no digit, so the symbol carries no number whose check could verify; read as %q", o.text)}
		case !verifies(tr.Sym, carried):
			return "", &fail{"reader/accepts-failed-check", what + fmt.Sprintf(": carries %s, whose check digit fails; read as %q", strOf(carried), o.text)}
		case o.text != strOf(carried):
			return "", &fail{"reader/misreads-parity", what + fmt.Sprintf(": carries %s, read as %q", strOf(carried), o.text)}
		}
		probe("probe.valid_symbol_read")
		return "ok", nil
	case "addon":
		base := digitsOf(tr.Content)
		ad := digitsOf(tr.Addon)
		row := drawUPCEAN(tr.Sym, base)
		for i := 0; i < 9; i++ {
			row = append(row, false)
		}
		row = append(row, ref.Addon(ad, tr.Par)...)
		probe("fault.addon")
		o := read(newReader(tr.Sym), row, tr.Scale)
		if o.pan != nil {
			return "", &fail{"addon/panic", fmt.Sprintf("reader panicked: %v", o.pan)}
		}
		if o.err != nil {
			if !isReaderErr(o.err) {
				probe("probe.error_of_another_type_than_ReaderException")
			}
			return "ok:main symbol not read", nil
		}
		var match bool
		if len(ad) == 2 {
			match = ref.EAN2Parity(ad[0]*10+ad[1]) == tr.Par
		} else {
			match = ref.EAN5Parity(ad) == tr.Par
		}
		if o.text != tr.Content {
			return "", &fail{"addon/main-misread", fmt.Sprintf("main symbol %q read as %q", tr.Content, o.text)}
		}
		switch {
		case o.ext == tr.Addon && !match:
			return "", &fail{"addon/accepted-with-wrong-parity", fmt.Sprintf("%d-digit add-on %q drawn with parity pattern %0*b (the value demands another) was accepted", len(ad), tr.Addon, len(ad), tr.Par)}
		case o.ext == "" && match:
			// "accepted iff the parity matches": the main symbol was read, the
			// add-on carries exactly the parity its value demands, and it was
			// dropped
			return "", &fail{"addon/rejected-with-right-parity", fmt.Sprintf("%d-digit add-on %q drawn with the parity pattern its value demands (%0*b) after %s %s was not reported", len(ad), tr.Addon, len(ad), tr.Par, tr.Sym, tr.Content)}
		case o.ext != "" && o.ext != tr.Addon && match:
			return "", &fail{"addon/misread", fmt.Sprintf("add-on %q with the right parity reported as %q", tr.Addon, o.ext)}
		case o.ext != "" && o.ext != tr.Addon:
			// fall-back reading: must be self-consistent with what is drawn
			if len(o.ext) == 2 && len(ad) == 5 && o.ext == tr.Addon[:2] && ref.EAN2Parity(ad[0]*10+ad[1]) == (tr.Par>>3)&3 {
				probe("probe.ean5_read_as_self_consistent_ean2")
				return "ok:fallback", nil
			}
			return "", &fail{"addon/misread", fmt.Sprintf("add-on %q (parity %b) reported as %q", tr.Addon, tr.Par, o.ext)}
		}
		if match {
			probe("probe.addon_accepted")
		} else {
			probe("probe.addon_rejected")
		}
		return "ok", nil
	case "c128", "c93", "c39":
		return execChar(tr, probe)
	case "c128writer", "c93writer":
		return execCharWriter(tr, probe)
	}
	return "skip:unknown kind", nil
}

func judgeUPCEAN(tr *Trace10, o readOut, carried string, ok bool, probe func(string)) (string, *fail) {
	what := fmt.Sprintf("%s symbol carrying %s (substitution pos %d -> %d, scale %d)", tr.Sym, carried, tr.Pos, tr.Repl, tr.Scale)
	if o.pan != nil {
		return "", &fail{"reader/panic", what + fmt.Sprintf(": reader panicked: %v", o.pan)}
	}
	if o.err != nil {
		if !isReaderErr(o.err) {
			probe("probe.error_of_another_type_than_ReaderException")
		}
		if ok {
			// a valid symbol that is not read: whether it must be read is C03's
			// statement - except when the reader got as far as the check digit
			// and rejected a number the standard accepts
			if _, isCk := o.err.(gozxing.ChecksumException); isCk {
				return "", &fail{"reader/rejects-valid-check", what + ": the number verifies by the standard's formula, the reader reports a checksum error"}
			}
			probe("probe.valid_symbol_not_read(outside_C10)")
			return "skip:valid symbol not read", nil
		}
		probe("probe.invalid_symbol_rejected")
		return "ok", nil
	}
	// a result: universal invariant - whatever is returned verifies
	got := digitsOf(o.text)
	for _, d := range got {
		if d < 0 || d > 9 {
			return "", &fail{"reader/returns-nondigit", what + fmt.Sprintf(": returned %q", o.text)}
		}
	}
	if len(got) != len(carried) {
		return "", &fail{"reader/returns-other", what + fmt.Sprintf(": returned %q", o.text)}
	}
	if !verifies(tr.Sym, got) {
		return "", &fail{"reader/returns-unverified", what + fmt.Sprintf(": returned %q, whose check digit does not verify", o.text)}
	}
	if !ok {
		if tr.Scale > 0 && o.text != carried {
			// Image path only (row-reversal retry + tolerant pattern matching):
			// the reader produced some OTHER number that does verify. No
			// checksum can exclude that; it is a misread of a located symbol.
			// Reported under its own class, keyed by symbology: the one
			// symbology where the unchanged tree does this (UPC-E) is a listed
			// known finding, any other is a violation. At scale 0 (DecodeRow,
			// exact widths, forward only) the strict rule below applies.
			probe("probe.image_path_misread_that_verifies." + tr.Sym)
			return "", &fail{"reader/misread-verifies", what + fmt.Sprintf(": the carried number fails the check; the image path (row reversal, tolerant matching) returned the different number %q, which verifies", o.text)}
		}
		return "", &fail{"reader/accepts-failed-check", what + fmt.Sprintf(": the carried number fails the check, yet the reader returned %q", o.text)}
	}
	if o.text != carried {
		return "", &fail{"reader/returns-other", what + fmt.Sprintf(": returned %q", o.text)}
	}
	probe("probe.valid_symbol_read")
	return "ok", nil
}

// ---------------------------------------------------------------- Code 128 / Code 93

func charRow(kind string, vals []int) ref.Row {
	if kind == "c39" {
		return ref.Code39Row(vals, 2+len(vals)%2) // wide elements of 2 or 3 modules
	}
	if kind == "c128" {
		return ref.Code128Row(append(append([]int(nil), vals...), 106))
	}
	// vals = data + C + K; add start/stop
	idx := append([]int{47}, vals...)
	idx = append(idx, 47)
	return ref.Code93Row(idx)
}

func charVerifies(kind string, vals []int) bool {
	n := len(vals)
	if kind == "c39" {
		return n >= 1 && ref.Code39Check(vals[:n-1]) == vals[n-1]
	}
	if kind == "c128" {
		return n >= 2 && ref.Code128Check(vals[:n-1]) == vals[n-1]
	}
	if n < 3 {
		return false
	}
	c := ref.Code93Check(vals[:n-2], 20)
	k := ref.Code93Check(vals[:n-1], 15)
	return c == vals[n-2] && k == vals[n-1]
}

func execChar(tr *Trace10, probe func(string)) (string, *fail) {
	vals := append([]int(nil), tr.Vals...)
	faulted := false
	if tr.Pos >= 0 && tr.Pos < len(vals) && tr.Repl != vals[tr.Pos] {
		vals[tr.Pos] = tr.Repl
		faulted = true
		probe("fault.char")
		if tr.FixK && tr.Kind == "c93" && len(vals) >= 3 && tr.Pos < len(vals)-1 {
			// the damage is consistent with K: only the C check can notice it
			vals[len(vals)-1] = ref.Code93Check(vals[:len(vals)-1], 15)
			probe("fault.char+k_consistent")
		}
	} else {
		probe("fault.none(control)")
	}
	sym := map[string]string{"c128": "code128", "c93": "code93", "c39": tr.Sym}[tr.Kind]
	o := read(newReader(sym), charRow(tr.Kind, vals), tr.Scale)
	if tr.HistOnly {
		probe("probe.history_only_call")
		return "ok:history", nil
	}
	ok := charVerifies(tr.Kind, vals)
	what := fmt.Sprintf("%s symbol %v (substitution pos %d -> %d, scale %d)", sym, vals, tr.Pos, tr.Repl, tr.Scale)
	if o.pan != nil && tr.Kind == "c39" && ok && !faulted {
		// a crash on a symbol whose check character verifies says nothing about
		// check characters (on the unchanged tree: extended-mode text ending in a
		// shift character, "Z/", indexes past the end): counted, not C10's business
		probe("probe.valid_symbol_crashes_reader(outside_C10)")
		return "skip:valid symbol crashes the reader", nil
	}
	if o.pan != nil {
		return "", &fail{"reader/panic", what + fmt.Sprintf(": reader panicked: %v", o.pan)}
	}
	if o.err != nil {
		if !isReaderErr(o.err) {
			probe("probe.error_of_another_type_than_ReaderException")
		}
		if ok && !faulted {
			if _, isCk := o.err.(gozxing.ChecksumException); isCk {
				return "", &fail{"reader/rejects-valid-check", what + ": check characters verify by the standard's formula, the reader reports a checksum error"}
			}
			probe("probe.valid_symbol_not_read(outside_C10)")
			probe("probe.valid_symbol_not_read(outside_C10)." + tr.Kind)
			return "skip:valid symbol not read", nil
		}
		probe("probe.invalid_symbol_rejected")
		return "ok", nil
	}
	if tr.Kind == "c128" {
		// universal invariant on the raw codes the reader reports
		raw := o.raw
		if n := len(raw); n >= 3 {
			codes := make([]int, 0, n)
			for _, b := range raw {
				codes = append(codes, int(b))
			}
			if codes[len(codes)-1] == 106 {
				codes = codes[:len(codes)-1]
			}
			if ref.Code128Check(codes[:len(codes)-1]) != codes[len(codes)-1] {
				return "", &fail{"reader/returns-unverified", what + fmt.Sprintf(": returned %q with raw codes %v that fail mod 103", o.text, raw)}
			}
		}
	}
	if tr.FixK && ok {
		probe("probe.valid_symbol_read")
		probe("probe.valid_symbol_read." + tr.Kind)
		return "ok", nil
	}
	if tr.FixK {
		return "", &fail{"reader/accepts-failed-check", what + fmt.Sprintf(": check character C does not verify (K was made consistent with the damage), yet the symbol was read as %q", o.text)}
	}
	if !ok || faulted {
		return "", &fail{"reader/accepts-failed-check", what + fmt.Sprintf(": a single-character substitution was read as %q", o.text)}
	}
	probe("probe.valid_symbol_read")
	probe("probe.valid_symbol_read." + tr.Kind)
	return "ok", nil
}

// parse a Code 128 writer row into symbol values by exact pattern match.
func parse128(row []bool) ([]int, error) {
	first, runs := ref.RunsOf(row)
	if !first {
		return nil, fmt.Errorf("does not start with a bar")
	}
	var vals []int
	p := 0
	for p < len(runs) {
		if len(runs)-p == 7 {
			if fmt.Sprint(runs[p:]) != fmt.Sprint(ref.Code128Patterns[106]) {
				return nil, fmt.Errorf("bad stop pattern %v", runs[p:])
			}
			return vals, nil
		}
		if len(runs)-p < 6 {
			return nil, fmt.Errorf("trailing runs")
		}
		found := -1
		for v := 0; v < 106; v++ {
			if fmt.Sprint(runs[p:p+6]) == fmt.Sprint(ref.Code128Patterns[v]) {
				found = v
				break
			}
		}
		if found < 0 {
			return nil, fmt.Errorf("runs %v match no pattern", runs[p:p+6])
		}
		vals = append(vals, found)
		p += 6
	}
	return nil, fmt.Errorf("no stop pattern")
}

func parse93(row []bool) ([]int, error) {
	if len(row)%9 != 1 || !row[len(row)-1] {
		return nil, fmt.Errorf("length %d is not 9k+1 with a termination bar", len(row))
	}
	var idx []int
	for p := 0; p+9 < len(row)+0 && p+9 <= len(row)-1; p += 9 {
		e := 0
		for b := 0; b < 9; b++ {
			e <<= 1
			if row[p+b] {
				e |= 1
			}
		}
		found := -1
		for i, x := range ref.Code93Encodings {
			if x == e {
				found = i
			}
		}
		if found < 0 {
			return nil, fmt.Errorf("pattern %09b matches no character", e)
		}
		idx = append(idx, found)
	}
	if len(idx) < 4 || idx[0] != 47 || idx[len(idx)-1] != 47 {
		return nil, fmt.Errorf("missing start/stop")
	}
	return idx[1 : len(idx)-1], nil
}

func execCharWriter(tr *Trace10, probe func(string)) (string, *fail) {
	sym := map[string]string{"c128writer": "code128", "c93writer": "code93"}[tr.Kind]
	row, err, pan := writerRow(newWriter(sym), sym, tr.Content)
	if pan != nil {
		return "", &fail{"writer/panic", fmt.Sprintf("%s writer panicked on %q: %v", sym, tr.Content, pan)}
	}
	if err != nil {
		return "skip:writer refused", nil
	}
	if sym == "code128" {
		vals, perr := parse128(row)
		if perr != nil {
			return "skip:writer output not parseable: " + perr.Error(), nil
		}
		n := len(vals)
		if n < 2 {
			return "skip:too short", nil
		}
		if c := ref.Code128Check(vals[:n-1]); c != vals[n-1] {
			return "", &fail{"writer/checkchar", fmt.Sprintf("code128 writer given %q emits check character %d; mod 103 over its own symbol values %v gives %d", tr.Content, vals[n-1], vals[:n-1], c)}
		}
		return "ok", nil
	}
	vals, perr := parse93(row)
	if perr != nil {
		return "skip:writer output not parseable: " + perr.Error(), nil
	}
	n := len(vals)
	if n < 3 {
		return "skip:too short", nil
	}
	if c := ref.Code93Check(vals[:n-2], 20); c != vals[n-2] {
		return "", &fail{"writer/checkchar", fmt.Sprintf("code93 writer given %q emits C = %d; mod 47 (weights 1..20) over %v gives %d", tr.Content, vals[n-2], vals[:n-2], c)}
	}
	if k := ref.Code93Check(vals[:n-1], 15); k != vals[n-1] {
		return "", &fail{"writer/checkchar", fmt.Sprintf("code93 writer given %q emits K = %d; mod 47 (weights 1..15) over %v gives %d", tr.Content, vals[n-1], vals[:n-1], k)}
	}
	return "ok", nil
}

// ---------------------------------------------------------------- jobs

type job10 struct {
	kind string
	sym  string
	lo   int // range of an exhaustive sweep
	hi   int
	n    int
}

func jobs10(tier string) []job10 {
	var j []job10
	chunk := 50000
	// UPC-E writer + reader: all 2*10^6 bodies (thorough), every 10th (quick)
	for lo := 0; lo < 2000000; lo += chunk {
		j = append(j, job10{kind: "upce-sweep", lo: lo, hi: lo + chunk})
	}
	// EAN-8 writer: all 10^7 bodies in thorough; 10^6 in quick
	n8 := 1000000
	if tier == "thorough" {
		n8 = 10000000
	}
	for lo := 0; lo < n8; lo += 4 * chunk {
		j = append(j, job10{kind: "ean8-sweep", lo: lo, hi: lo + 4*chunk})
	}
	// EAN-5: all 100000 values with the parity their value demands (must be
	// accepted) and with two other parity patterns (must not be)
	for lo := 0; lo < 100000; lo += 5000 {
		j = append(j, job10{kind: "ean5-sweep", lo: lo, hi: lo + 5000})
	}
	ns := 1500
	if tier == "thorough" {
		ns = 80000
	}
	for i := 0; i < ns; i++ {
		j = append(j, job10{kind: "subst"})
	}
	for i := 0; i < ns/2; i++ {
		j = append(j, job10{kind: "char"})
	}
	// add-ons: EAN-2 all 100 values x 4 parities per job; EAN-5 seeded x 32 parities
	for i := 0; i < ns/6+4; i++ {
		j = append(j, job10{kind: "addon"})
	}
	// parity-encoded digits: all 64 left-half parity patterns of EAN-13 and UPC-E
	for i := 0; i < ns/10+4; i++ {
		j = append(j, job10{kind: "parity"})
	}
	return j
}

func randDigits(r *kit.RNG, n int) []int {
	d := make([]int, n)
	for i := range d {
		d[i] = r.Intn(10)
	}
	return d
}

// reportWithHistory reports a reader-side failure seen on a re-used reader
// instance: as a single-symbol trace if it also fails on a fresh reader,
// otherwise with the (ddmin-minimised) list of symbols read before on the same
// instances.
func reportWithHistory(c *kit.Ctx, tr *Trace10, f *fail, hist []*Trace10) {
	if _, f2 := execChain10(tr, func(string) {}); f2 != nil {
		report10(c, tr, f2)
		return
	}
	t2 := *tr
	t2.Prev = hist
	_, f3 := execChain10(&t2, func(string) {})
	if f3 == nil {
		report10(c, tr, f) // will not reproduce: surfaces as a harness error, never silently dropped
		return
	}
	keep := kit.DDMinN(len(hist), 300, func(idx []int) bool {
		t3 := *tr
		for _, i := range idx {
			t3.Prev = append(t3.Prev, hist[i])
		}
		if len(t3.Prev) == 0 {
			return false
		}
		_, f4 := execChain10(&t3, func(string) {})
		return f4 != nil && f4.class == f3.class
	})
	t2.Prev = nil
	for _, i := range keep {
		t2.Prev = append(t2.Prev, hist[i])
	}
	if _, f5 := execChain10(&t2, func(string) {}); f5 != nil {
		f3 = f5
	} else {
		t2.Prev = hist
	}
	report10(c, &t2, f3)
}

func report10(c *kit.Ctx, tr *Trace10, f *fail) {
	c.Violate(f.class, f.class+"/"+tr.Sym, f.detail, tr)
}

// C10 returns the runner spec.
func C10() *kit.Spec {
	cache := map[string][]job10{}
	jobs := func(tier string) []job10 {
		if j, ok := cache[tier]; ok {
			return j
		}
		j := jobs10(tier)
		cache[tier] = j
		return j
	}
	return &kit.Spec{
		Property: "C10",
		Engine:   "chansim",
		Level:    "fault_enumeration",
		Rule: "one evaluation = one 1-D symbol through the real writer (fault-free, writer side) or one reference-constructed symbol, possibly with one substitution fault, through the real reader. " +
			"Enumerated: all 2*10^6 UPC-E bodies through the real writer (check digit carried by the parity pattern == mod-10 of the expanded UPC-A number) and through the real reader (accepts body+check); EAN-8 writer over 10^6 (quick) / all 10^7 (thorough) bodies; " +
			"for seeded numbers every position x every replacement digit (incl. the parity-encoded first digit of EAN-13 and number system/check of UPC-E); for seeded Code 128 / Code 93 symbols every symbol-character position x every other character (Code 93 also with K recomputed over the damaged data + C, so that only C can notice); a writer that draws a well-formed symbol of another number than the body it was given has not computed that body's check digit; EAN-2 all 100 values x 4 parity patterns; EAN-5 all 100000 values with the right and two other parity patterns, plus seeded values x all 32 patterns. " +
			"distinct_nontrivial = distinct seeded traces that carry a fault",
		StateMetric: "distinct (symbology, number, fault) traces; sweep counters",
		Assumptions: []string{
			"the reference check-digit model (mod-10 3/1, UPC-E expansion, mod-103, C/K mod-47, EAN-2 value mod 4, EAN-5 (3(d1+d3+d5)+9(d2+d4)) mod 10) decides per faulted symbol whether the check fails (reader must return an error) or happens to verify (reader may return exactly that number)",
			"that a valid symbol is read at all is C03's statement: a valid reference symbol the reader does not find is skipped and counted, unless the reader reports a checksum error for a number that verifies",
			"Code 128 / Code 93 pattern tables are frozen harness constants (provenance in chansim/onedref/frozen.go), validated structurally at start-up",
			"Code 128 stop and Code 93 '*' are not used as replacement characters (they change the framing, not a character)",
		},
		Components: map[string]string{
			"oned writers (EAN-13, EAN-8, UPC-A, UPC-E, Code 128, Code 93)": "real",
			"oned readers (same + add-on support)":                          "real",
			"bar/space row medium, rendering":                               "simulated (harness)",
			"onedref (check digits, patterns, symbol constructor)":          "reference model / stub sender (harness)",
		},
		FaultKinds:  []string{"none(control)", "digit", "char", "char+k_consistent", "addon", "parity_pattern"},
		SimTimeNote: "none: no timers; logical steps = symbols transmitted",
		NumRuns:     func(tier string) int { return len(jobs(tier)) },
		Run: func(c *kit.Ctx) {
			j := jobs(c.Tier)[c.Run]
			r := c.RNG
			watchCtx = c
			probe := func(p string) { c.Count(p, 1) }
			readerCache = map[string]gozxing.Reader{}
			writerCache = map[string]gozxing.Writer{}
			heldResults = map[gozxing.Reader]*heldResult{}
			staleNote = ""
			var hist []*Trace10
			// optional hints an application may pass: the same for a whole job
			jobHints := 0
			if r.Chance(1, 2) {
				jobHints = r.Intn(32)
			}
			do := func(tr *Trace10, hash bool) bool {
				if tr.HistOnly {
					// keeps the hints it was given
				} else if instanceKind(tr.Kind) {
					tr.Hints = jobHints
					if jobHints != 0 {
						probe("probe.reader_given_optional_hints")
					}
				}
				out, f := exec10(tr, probe)
				if st := takeStale(); st != nil && f == nil {
					f = st
				}
				if f != nil && strings.Contains(f.class, "misread-verifies") {
					// a misread of a located symbol: reported (known finding or
					// violation, by class), the job goes on
					report10(c, tr, f)
					f = nil
				}
				if f != nil && (instanceKind(tr.Kind)) {
					reportWithHistory(c, tr, f, hist)
					return false
				}
				if instanceKind(tr.Kind) {
					if len(hist) < 400 {
						cp := *tr
						hist = append(hist, &cp)
					}
				}
				c.Steps(1)
				if hash {
					c.Eval(kit.HashJSON(tr), tr.Pos >= 0 || tr.Kind == "addon")
					c.Event(fmt.Sprintf("%x", kit.HashJSON(tr)))
				}
				if f != nil {
					report10(c, tr, f)
					return false
				}
				if strings.HasPrefix(out, "skip:") {
					c.Count("skipped."+strings.SplitN(out[5:], ":", 2)[0], 1)
				}
				return true
			}
			switch j.kind {
			case "upce-sweep":
				w := oned.NewUPCEWriter()
				rd := oned.NewUPCEReader()
				var sweepHist []*Trace10
				step := 1
				var cnt int64
				for n := j.lo; n < j.hi; n++ {
					body := fmt.Sprintf("%07d", n)
					row, err, pan := writerRow(w, "upce", body)
					cnt++
					if pan != nil || err != nil {
						tr := &Trace10{Kind: "writer", Sym: "upce", Content: body, Pos: -1}
						if pan != nil {
							report10(c, tr, &fail{"writer/panic", fmt.Sprintf("upce writer panicked on %q: %v", body, pan)})
						} else {
							report10(c, tr, &fail{"writer/refuses-body", fmt.Sprintf("upce writer refuses the 7-digit body %q: %v", body, err)})
						}
						return
					}
					got, perr := parseUPCEAN("upce", row)
					want := body + fmt.Sprint(ref.UPCECheck(digitsOf(body)))
					if perr != nil {
						c.Count("skipped.writer output not parseable by the reference", 1)
					} else if got != want {
						tr := &Trace10{Kind: "writer", Sym: "upce", Content: body, Pos: -1}
						_, f := exec10(tr, probe)
						if f != nil {
							report10(c, tr, f)
							return
						}
					}
					// 8 digits: right check accepted, a wrong one refused
					wrong := (int(want[7]-'0') + 1 + n%9) % 10
					for _, full := range []string{want, body + fmt.Sprint(wrong)} {
						if n%7 != 0 {
							break
						}
						tr := &Trace10{Kind: "writer-wrongcheck", Sym: "upce", Content: full, Pos: -1}
						cnt++
						if _, f := exec10(tr, probe); f != nil {
							report10(c, tr, f)
							return
						}
					}
					// reader side: the reference symbol for body+check must be accepted as such
					if n%step == 0 {
						tr := &Trace10{Kind: "reader", Sym: "upce", Content: want, Pos: -1}
						curTrace10 = tr
						o := read(rd, ref.UPCE(digitsOf(want)), 0)
						cnt++
						_, f := judgeUPCEAN(tr, o, want, true, probe)
						if st := takeStale(); st != nil && f == nil {
							f = st
						}
						if f != nil {
							reportWithHistory(c, tr, f, sweepHist)
							return
						}
						sweepHist = append(sweepHist, tr)
						if len(sweepHist) > 8 {
							sweepHist = sweepHist[1:]
						}
					}
				}
				c.EvalN(cnt)
				c.Steps(cnt)
				c.Count("sweep.upce_bodies", j.hi-j.lo)
				c.Event(fmt.Sprintf("upce %d-%d %d", j.lo, j.hi, cnt))
			case "ean5-sweep":
				sym := []string{"ean13", "upca", "ean8", "upce"}[r.Intn(4)]
				body := randDigits(r, bodyLen(sym))
				if sym == "upce" {
					body[0] = r.Intn(2)
				}
				content := strOf(append(body, refCheck(sym, body)))
				var cnt int64
				for v := j.lo; v < j.hi; v++ {
					ad := fmt.Sprintf("%05d", v)
					right := ref.EAN5Parity(digitsOf(ad))
					pars := []int{right, (right + 1 + r.Intn(31)) % 32, r.Intn(32)}
					for _, par := range pars {
						tr := &Trace10{Kind: "addon", Sym: sym, Content: content, Addon: ad, Par: par, Pos: -1}
						cnt++
						if _, f := exec10(tr, probe); f != nil {
							report10(c, tr, f)
							return
						}
					}
				}
				c.EvalN(cnt)
				c.Steps(cnt)
				c.Count("sweep.ean5_values", j.hi-j.lo)
				c.Event(fmt.Sprintf("ean5 %d-%d", j.lo, j.hi))
			case "ean8-sweep":
				w := oned.NewEAN8Writer()
				var cnt int64
				for n := j.lo; n < j.hi; n++ {
					body := fmt.Sprintf("%07d", n)
					row, err, pan := writerRow(w, "ean8", body)
					cnt++
					if pan != nil || err != nil {
						tr := &Trace10{Kind: "writer", Sym: "ean8", Content: body, Pos: -1}
						report10(c, tr, &fail{"writer/refuses-body", fmt.Sprintf("ean8 writer refuses/panics on the 7-digit body %q: %v %v", body, err, pan)})
						return
					}
					got, perr := parseUPCEAN("ean8", row)
					want := body + fmt.Sprint(ref.Mod10(digitsOf(body)))
					if perr != nil {
						c.Count("skipped.writer output not parseable by the reference", 1)
					} else if got != want {
						tr := &Trace10{Kind: "writer", Sym: "ean8", Content: body, Pos: -1}
						if _, f := exec10(tr, probe); f != nil {
							report10(c, tr, f)
							return
						}
					}
				}
				c.EvalN(cnt)
				c.Steps(cnt)
				c.Count("sweep.ean8_bodies", j.hi-j.lo)
				c.Event(fmt.Sprintf("ean8 %d-%d", j.lo, j.hi))
			case "subst":
				sym := []string{"ean13", "ean8", "upca", "upce"}[r.Intn(4)]
				body := randDigits(r, bodyLen(sym))
				if sym == "upce" {
					body[0] = r.Intn(2)
					if r.Chance(1, 2) {
						body[6] = r.Intn(5) // the digits that select the expansion rule
					}
				}
				full := append(body, refCheck(sym, body))
				content := strOf(full)
				// writer side, seeded
				if !do(&Trace10{Kind: "writer", Sym: sym, Content: strOf(body), Pos: -1}, true) {
					return
				}
				for d := 0; d < 10; d++ {
					if !do(&Trace10{Kind: "writer-wrongcheck", Sym: sym, Content: strOf(body) + fmt.Sprint(d), Pos: -1}, false) {
						return
					}
				}
				scale := 0
				if r.Chance(1, 3) {
					scale = r.Range(1, 4)
				}
				if c.Run%23 == 0 {
					c.Sample(&Trace10{Kind: "reader", Sym: sym, Content: content, Pos: 2, Repl: (full[2] + 1) % 10, Scale: scale})
				}
				if !do(&Trace10{Kind: "reader", Sym: sym, Content: content, Pos: -1, Scale: scale}, true) {
					return
				}
				for pos := 0; pos < len(full); pos++ {
					for d := 0; d < 10; d++ {
						if d == full[pos] {
							continue
						}
						if !do(&Trace10{Kind: "reader", Sym: sym, Content: content, Pos: pos, Repl: d, Scale: scale}, true) {
							return
						}
					}
				}
			case "char":
				kind := []string{"c128", "c93", "c128", "c93", "c39"}[r.Intn(5)]
				n := r.Range(1, 14)
				if kind == "c39" {
					// Code 39 read with the optional modulo-43 check character switched on
					// (plain and extended mode); symbols of 0, 1, 2 ... data characters
					n = r.Range(0, 12)
					sym := []string{"code39", "code39ext"}[r.Intn(2)]
					var vals []int
					for i := 0; i < n; i++ {
						if sym == "code39ext" && r.Chance(3, 4) {
							vals = append(vals, r.Intn(39)) // no shift characters: plain text
						} else {
							vals = append(vals, r.Intn(43))
						}
					}
					vals = append(vals, ref.Code39Check(vals))
					scale := 0
					if r.Chance(1, 3) {
						scale = r.Range(1, 3)
					}
					if !do(&Trace10{Kind: "c39", Sym: sym, Vals: vals, Pos: -1, Scale: scale}, true) {
						return
					}
					for pos := 0; pos < len(vals); pos++ {
						if r.Chance(1, 3) {
							// the application once told this reader, for one call, not to expect a
							// check character (or to expect one): that call's business only
							hb := []int{32, 64}[r.Intn(2)]
							if !do(&Trace10{Kind: "c39", Sym: sym, Vals: vals, Pos: -1, Scale: scale, HistOnly: true, Hints: hb}, false) {
								return
							}
						}
						for v := 0; v < 43; v++ {
							if v == vals[pos] {
								continue
							}
							if !do(&Trace10{Kind: "c39", Sym: sym, Vals: vals, Pos: pos, Repl: v, Scale: scale}, true) {
								return
							}
						}
					}
					return
				}
				if r.Chance(1, 3) {
					n = r.Range(15, 70) // beyond one and two cycles of the Code 93 weights (20 / 15)
				}
				var vals []int
				var text string
				if kind == "c128" {
					start := 103 + r.Intn(3)
					vals = []int{start}
					special := r.Chance(1, 6) // also the function / shift / code-set values 96..102
					for i := 0; i < n; i++ {
						v := r.Intn(96) // printable / digit pairs in any code set
						if special && r.Chance(1, 4) {
							v = 96 + r.Intn(7)
						}
						vals = append(vals, v)
					}
					vals = append(vals, ref.Code128Check(vals))
					// Code 128 writer input: printable text, digit runs (code set C),
					// control characters (code set A) between lower-case letters
					// (code set B), i.e. every code-set switch and shift
					style := r.Intn(4)
					for i := 0; i < n; i++ {
						switch {
						case style == 1 && r.Chance(1, 4):
							text += string(rune(r.Intn(32))) // control character
						case style == 1:
							text += string(rune('a' + r.Intn(26)))
						case style == 2 && r.Chance(1, 2):
							text += fmt.Sprintf("%02d", r.Intn(100))
						case style == 3:
							text += string(rune(r.Intn(128)))
						default:
							text += string(rune(32 + r.Intn(95)))
						}
					}
				} else {
					for i := 0; i < n; i++ {
						vals = append(vals, r.Intn(43))
					}
					vals = append(vals, ref.Code93Check(vals, 20))
					vals = append(vals, ref.Code93Check(vals, 15))
					for i := 0; i < n; i++ {
						text += string(rune(r.Intn(128)))
					}
				}
				// writer side
				if !do(&Trace10{Kind: kind + "writer", Sym: map[string]string{"c128": "code128", "c93": "code93"}[kind], Content: text, Pos: -1}, true) {
					return
				}
				scale := 0
				if r.Chance(1, 3) {
					scale = r.Range(1, 3)
				}
				sym := map[string]string{"c128": "code128", "c93": "code93"}[kind]
				if !do(&Trace10{Kind: kind, Sym: sym, Vals: vals, Pos: -1, Scale: scale}, true) {
					return
				}
				max := 106
				if kind == "c93" {
					max = 47
				}
				stride := 1
				if len(vals) > 20 {
					stride = 5 // long symbols: every position, every 5th replacement (random phase)
				}
				for pos := 0; pos < len(vals); pos++ {
					for v := r.Intn(stride); v < max; v += stride {
						if v == vals[pos] {
							continue
						}
						if kind == "c128" && pos == 0 && v < 103 {
							continue // position 0 is a start character
						}
						if !do(&Trace10{Kind: kind, Sym: sym, Vals: vals, Pos: pos, Repl: v, Scale: scale}, true) {
							return
						}
						// Code 93 has two check characters: damage that K happens to be
						// consistent with must still be caught by C
						if kind == "c93" && pos < len(vals)-1 && (pos == len(vals)-2 || v%4 == 0) {
							if !do(&Trace10{Kind: kind, Sym: sym, Vals: vals, Pos: pos, Repl: v, Scale: scale, FixK: true}, true) {
								return
							}
						}
					}
				}
			case "parity":
				for _, sym := range []string{"ean13", "upce"} {
					n := 12
					if sym == "upce" {
						n = 6
					}
					content := strOf(randDigits(r, n))
					for par := 0; par < 64; par++ {
						if !do(&Trace10{Kind: "parity", Sym: sym, Content: content, Par: par, Pos: -1}, true) {
							return
						}
					}
				}
			case "addon":
				sym := []string{"ean13", "upca", "ean8", "upce"}[r.Intn(4)]
				body := randDigits(r, bodyLen(sym))
				if sym == "upce" {
					body[0] = r.Intn(2)
				}
				content := strOf(append(body, refCheck(sym, body)))
				scale := 0
				if r.Chance(1, 4) {
					scale = r.Range(1, 3)
				}
				for v := 0; v < 100; v++ {
					for par := 0; par < 4; par++ {
						if !do(&Trace10{Kind: "addon", Sym: sym, Content: content, Addon: fmt.Sprintf("%02d", v), Par: par, Pos: -1, Scale: scale}, true) {
							return
						}
					}
				}
				for i := 0; i < 12; i++ {
					ad := strOf(randDigits(r, 5))
					for par := 0; par < 32; par++ {
						if !do(&Trace10{Kind: "addon", Sym: sym, Content: content, Addon: ad, Par: par, Pos: -1, Scale: scale}, true) {
							return
						}
					}
				}
			}
		},
		Replay: func(c *kit.Ctx, raw json.RawMessage) {
			tr := &Trace10{}
			if err := json.Unmarshal(raw, tr); err != nil {
				c.Fatal("bad trace: " + err.Error())
				return
			}
			watchCtx = c
			if _, f := execChain10(tr, func(string) {}); f != nil {
				report10(c, tr, f)
			}
		},
	}
}

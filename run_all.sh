#!/usr/bin/env bash
# runs every claimed check of a tier sequentially on the current /repo tree; summary at the end
cd "$(dirname "$0")"
tier="${1:-quick}"
rc=0
for id in $(python3 -c "import json;print(' '.join(c['property_id'] for c in json.load(open('MANIFEST.json'))['checks']))"); do
  s=$(date +%s)
  out=$(./check $id $tier 2>&1); code=$?
  echo "$id exit=$code $(( $(date +%s)-s ))s  $(echo "$out" | grep -c '^VIOLATION') violation lines, $(echo "$out" | grep -c '^KNOWN-FINDING') known"
  [ $code -ne 0 ] && { rc=1; echo "$out" | tail -5; }
done
exit $rc

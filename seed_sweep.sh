#!/usr/bin/env bash
# runs every quick check under several VERIF_SEED values; any non-zero exit on the unchanged tree is a false alarm to investigate
cd "$(dirname "$0")"
rc=0
for seed in "$@"; do
  for id in $(python3 -c "import json;print(' '.join(c['property_id'] for c in json.load(open('MANIFEST.json'))['checks']))"); do
    out=$(VERIF_SEED=$seed ./check $id quick 2>&1); code=$?
    echo "seed=$seed $id exit=$code $(echo "$out" | grep -c '^KNOWN-FINDING') known"
    if [ $code -ne 0 ]; then rc=1; echo "$out" | grep -A3 "^VIOLATION\|HARNESS" | head -12; fi
  done
done
exit $rc

package verifhook

import (
	"fmt"
	"math"
	"reflect"
	"sort"
	"strings"
	"unsafe"
)

// Registered package-level variables (filled by generated init functions in
// every library package of the scratch copy).
type regVar struct {
	name string
	ptr  interface{} // *T
}

var registry []regVar

// Register records the address of one package-level variable.
func Register(name string, ptr interface{}) { registry = append(registry, regVar{name, ptr}) }

// ModulePrefix limits the walk: values whose dynamic type is defined outside
// this import-path prefix are compared by identity only.
const ModulePrefix = "github.com/makiuchi-d/gozxing"

type walker struct {
	visited map[visitKey]uint64 // ancestors on the current path
	h       uint64
	words   int
	budget  *int // remaining words; the walk stops (and the snapshot is marked truncated) at zero
}

type visitKey struct {
	p uintptr
	t reflect.Type
}

func (w *walker) mixin(v uint64) {
	w.h ^= v
	w.h *= 1099511628211
	w.words++
	if w.budget != nil {
		*w.budget--
	}
}

func (w *walker) str(s string) {
	w.mixin(uint64(len(s)))
	for i := 0; i < len(s); i++ {
		w.mixin(uint64(s[i]))
	}
}

func ownType(t reflect.Type) bool {
	for t.Kind() == reflect.Ptr || t.Kind() == reflect.Slice || t.Kind() == reflect.Array {
		t = t.Elem()
	}
	p := t.PkgPath()
	if p == "" {
		return true // builtin / unnamed composite: walk it
	}
	return strings.HasPrefix(p, ModulePrefix)
}

func (w *walker) walk(v reflect.Value, depth int) {
	if depth > 200 || (w.budget != nil && *w.budget <= 0) {
		return
	}
	switch v.Kind() {
	case reflect.Bool:
		if v.Bool() {
			w.mixin(1)
		} else {
			w.mixin(0)
		}
	case reflect.Int, reflect.Int8, reflect.Int16, reflect.Int32, reflect.Int64:
		w.mixin(uint64(v.Int()))
	case reflect.Uint, reflect.Uint8, reflect.Uint16, reflect.Uint32, reflect.Uint64, reflect.Uintptr:
		w.mixin(v.Uint())
	case reflect.Float32, reflect.Float64:
		w.mixin(math.Float64bits(v.Float()))
	case reflect.Complex64, reflect.Complex128:
		c := v.Complex()
		w.mixin(math.Float64bits(real(c)))
		w.mixin(math.Float64bits(imag(c)))
	case reflect.String:
		w.str(v.String())
	case reflect.Ptr:
		if v.IsNil() {
			w.mixin(0)
			return
		}
		p := v.Pointer()
		k := visitKey{p, v.Type()}
		w.mixin(uint64(p)) // identity: a replaced object is a change
		if _, onPath := w.visited[k]; onPath {
			return // cycle: this object is an ancestor on the current path
		}
		if !ownType(v.Type().Elem()) {
			return
		}
		// path-based cycle detection (the set holds only ancestors): the
		// digest of a sub-structure is then a function of that sub-structure
		// and its ancestors alone, independent of what was walked before -
		// in particular of map iteration order
		w.visited[k] = 1
		w.walk(v.Elem(), depth+1)
		delete(w.visited, k)
	case reflect.Slice:
		if v.IsNil() {
			w.mixin(0)
			return
		}
		w.mixin(uint64(v.Len()))
		w.mixin(uint64(v.Pointer()))
		k := visitKey{v.Pointer(), v.Type()}
		if _, onPath := w.visited[k]; onPath && v.Len() > 0 {
			return
		}
		if v.Len() > 0 {
			w.visited[k] = 1
			defer delete(w.visited, k)
		}
		// walk the whole capacity: an append into spare capacity is a write
		full := v
		if v.Cap() > v.Len() {
			full = v.Slice(0, v.Cap())
		}
		for i := 0; i < full.Len(); i++ {
			w.walk(full.Index(i), depth+1)
		}
	case reflect.Array:
		for i := 0; i < v.Len(); i++ {
			w.walk(v.Index(i), depth+1)
		}
	case reflect.Struct:
		for i := 0; i < v.NumField(); i++ {
			f := v.Field(i)
			if !f.CanInterface() && f.CanAddr() {
				f = reflect.NewAt(f.Type(), unsafe.Pointer(f.UnsafeAddr())).Elem()
			}
			w.walk(f, depth+1)
		}
	case reflect.Map:
		if v.IsNil() {
			w.mixin(0)
			return
		}
		w.mixin(uint64(v.Len()))
		w.mixin(uint64(v.Pointer()))
		// order-independent combination of (key,value) digests
		var sum uint64
		it := v.MapRange()
		for it.Next() {
			// each entry is digested on its own (same ancestors, own hash
			// state), and the entry digests are combined commutatively
			sub := &walker{visited: w.visited, budget: w.budget}
			sub.walk(it.Key(), depth+1)
			sub.walk(it.Value(), depth+1)
			sum += sub.h*0x9e3779b97f4a7c15 + 1
			w.words += sub.words
		}
		w.mixin(sum)
	case reflect.Interface:
		if v.IsNil() {
			w.mixin(0)
			return
		}
		e := v.Elem()
		w.str(e.Type().String())
		if !ownType(e.Type()) {
			// foreign value: identity only where it has one
			switch e.Kind() {
			case reflect.Ptr, reflect.Map, reflect.Slice, reflect.Func, reflect.Chan, reflect.UnsafePointer:
				w.mixin(uint64(e.Pointer()))
			}
			return
		}
		w.walk(e, depth+1)
	case reflect.Func, reflect.Chan, reflect.UnsafePointer:
		if v.IsNil() {
			w.mixin(0)
		} else {
			w.mixin(uint64(v.Pointer()))
		}
	}
}

// Snapshot digests everything reachable from each registered variable.
func Snapshot() (map[string]uint64, int) {
	out := make(map[string]uint64, len(registry))
	words := 0
	budget := 20000000
	for _, r := range registry {
		w := &walker{visited: map[visitKey]uint64{}, h: 14695981039346656037, budget: &budget}
		w.walk(reflect.ValueOf(r.ptr).Elem(), 0)
		out[r.name] = w.h
		words += w.words
	}
	if budget <= 0 {
		words = -1 // truncated: reported by the driver as a harness problem
	}
	return out, words
}

// Diff lists the variables whose digest differs.
func Diff(a, b map[string]uint64) []string {
	var d []string
	for k, v := range a {
		if b[k] != v {
			d = append(d, k)
		}
	}
	for k := range b {
		if _, ok := a[k]; !ok {
			d = append(d, k+" (new)")
		}
	}
	sort.Strings(d)
	return d
}

// NumRegistered reports how many variables were registered.
func NumRegistered() int { return len(registry) }

func init() { _ = fmt.Sprint }

// Package verifhook is copied into a scratch copy of the library as
// github.com/makiuchi-d/gozxing/verifhook. It owns the only source of
// nondeterminism C18 depends on: which caller goroutine runs next.
//
// Exactly one task holds the baton; the others are parked in FUTEX_WAIT on
// their own word. Hand-over is a plain store plus FUTEX_WAKE, issued with raw
// system calls from functions marked //go:norace, so the race detector's
// happens-before graph contains no edge from the simulator: execution is
// serialised, yet every pair of conflicting accesses by different tasks that
// the library itself does not order is still reported as a race.
package verifhook

import (
	"syscall"
	"unsafe"
)

const (
	futexWait = 0
	futexWake = 1
	// MaxTasks bounds K.
	MaxTasks = 64
)

// Switch is one scheduling decision that changed (or confirmed) the running task.
type Switch struct {
	Yield uint64 // global yield index at which the decision was taken
	Site  int32  // instrumented site (-1: task exit, -2: start)
	From  int32
	To    int32
}

// Config selects the scheduling mode for one run.
type Config struct {
	Seed     uint64
	Mode     int    // 0 gap, 1 site-targeted, 2 PCT, 3 replay
	MeanGap  uint64 // mode 0
	Sites    []int32
	SiteProb uint32 // mode 1: probability in 1/65536 that an enabled site switches
	PCTDepth int    // mode 2
	PCTSpan  uint64 // mode 2: estimated total yields
	Replay   []Switch
	MaxSw    int    // cap on context switches (then run to completion without switching)
	MaxYield uint64 // step budget: Yield panics with ErrBudget beyond this
	NumSites int
}

type budgetErr struct{}

// ErrBudget is the panic value used to stop a task that exceeded the step budget.
var ErrBudget = budgetErr{}

var (
	active    uint32
	cur       int32
	ntasks    int32
	live      [MaxTasks]bool
	nlive     int32
	wake      [MaxTasks]uint32
	doneWord  uint32
	yields    uint64
	nextDec   uint64
	rng       uint64
	cfg       Config
	siteOn    []bool
	prio      [MaxTasks]int32
	pctPoints []uint64
	pctNext   int
	pctLow    int32
	replayPos int
	diverged  bool
	swLog     []Switch
	nSwitch   int
	lockDepth int32
	perTask   [MaxTasks]uint64 // yields executed by each task
	counting  bool
	siteHits  []uint32
)

//go:norace
func futex(addr *uint32, op, val uintptr) {
	syscall.Syscall6(syscall.SYS_FUTEX, uintptr(unsafe.Pointer(addr)), op, val, 0, 0, 0)
}

//go:norace
func next64() uint64 {
	rng += 0x9e3779b97f4a7c15
	z := rng
	z = (z ^ (z >> 30)) * 0xbf58476d1ce4e5b9
	z = (z ^ (z >> 27)) * 0x94d049bb133111eb
	return z ^ (z >> 31)
}

//go:norace
func intn(n uint64) uint64 {
	if n <= 1 {
		return 0
	}
	return next64() % n
}

// Setup prepares a run with k tasks. Called from the main goroutine before
// the tasks are started.
//
//go:norace
func Setup(k int, c Config) {
	cfg = c
	ntasks = int32(k)
	nlive = int32(k)
	rng = c.Seed
	yields = 0
	nSwitch = 0
	replayPos = 0
	diverged = false
	lockDepth = 0
	swLog = make([]Switch, 0, 1024)
	for i := 0; i < MaxTasks; i++ {
		live[i] = i < k
		wake[i] = 0
		perTask[i] = 0
	}
	doneWord = 0
	switch c.Mode {
	case 0:
		nextDec = 1 + intn(2*c.MeanGap+1)
	case 1:
		siteOn = make([]bool, c.NumSites+1)
		for _, s := range c.Sites {
			if int(s) >= 0 && int(s) < len(siteOn) {
				siteOn[s] = true
			}
		}
	case 2:
		// random distinct priorities; d change points
		for i := 0; i < k; i++ {
			prio[i] = int32(i + 1 + c.PCTDepth)
		}
		for i := k - 1; i > 0; i-- {
			j := int(intn(uint64(i + 1)))
			prio[i], prio[j] = prio[j], prio[i]
		}
		pctPoints = pctPoints[:0]
		for i := 0; i < c.PCTDepth; i++ {
			pctPoints = append(pctPoints, 1+intn(c.PCTSpan+1))
		}
		// sort ascending
		for i := 1; i < len(pctPoints); i++ {
			for j := i; j > 0 && pctPoints[j-1] > pctPoints[j]; j-- {
				pctPoints[j-1], pctPoints[j] = pctPoints[j], pctPoints[j-1]
			}
		}
		pctNext = 0
		pctLow = int32(c.PCTDepth)
	}
}

// first picks the task that runs first.
//
//go:norace
func first() int32 {
	switch cfg.Mode {
	case 2:
		return highest()
	case 3:
		if len(cfg.Replay) > 0 && cfg.Replay[0].Site == -2 {
			replayPos = 1
			t := cfg.Replay[0].To
			if t >= 0 && t < ntasks {
				return t
			}
		}
		return 0
	}
	return int32(intn(uint64(ntasks)))
}

//go:norace
func highest() int32 {
	best := int32(-1)
	for i := int32(0); i < ntasks; i++ {
		if live[i] && (best < 0 || prio[i] > prio[best]) {
			best = i
		}
	}
	return best
}

//go:norace
func randomLive() int32 {
	n := intn(uint64(nlive))
	for i := int32(0); i < ntasks; i++ {
		if live[i] {
			if n == 0 {
				return i
			}
			n--
		}
	}
	return -1
}

// Start releases the first task. Called from the main goroutine after all
// task goroutines have been created (they park in TaskBegin).
//
//go:norace
func Start() {
	t := first()
	swLog = append(swLog, Switch{0, -2, -1, t})
	cur = t
	active = 1
	wake[t] = 1
	futex(&wake[t], futexWake, 1)
}

// WaitDone blocks the main goroutine until the last task has exited.
//
//go:norace
func WaitDone() {
	for doneWord == 0 {
		futex(&doneWord, futexWait, 0)
	}
	active = 0
}

//go:norace
func park(me int32) {
	for wake[me] == 0 {
		futex(&wake[me], futexWait, 0)
	}
	wake[me] = 0
}

// TaskBegin parks task me until it is given the baton for the first time.
//
//go:norace
func TaskBegin(me int32) { park(me) }

//go:norace
func handOver(me, to int32) {
	cur = to
	wake[to] = 1
	futex(&wake[to], futexWake, 1)
	park(me)
}

// TaskEnd passes the baton on when task me is finished.
//
//go:norace
func TaskEnd(me int32) {
	live[me] = false
	nlive--
	lockDepth = 0
	if nlive == 0 {
		doneWord = 1
		futex(&doneWord, futexWake, 1)
		return
	}
	var to int32
	switch cfg.Mode {
	case 2:
		to = highest()
	case 3:
		to = -1
		if replayPos < len(cfg.Replay) && cfg.Replay[replayPos].Site == -1 {
			to = cfg.Replay[replayPos].To
			replayPos++
		}
		if to < 0 || to >= ntasks || !live[to] {
			diverged = true
			to = lowestLive()
		}
	default:
		to = randomLive()
	}
	swLog = append(swLog, Switch{yields, -1, me, to})
	cur = to
	wake[to] = 1
	futex(&wake[to], futexWake, 1)
}

//go:norace
func lowestLive() int32 {
	for i := int32(0); i < ntasks; i++ {
		if live[i] {
			return i
		}
	}
	return -1
}

// LockDepth brackets regions in which the running task holds a library lock;
// no context switch is taken there, so a parked task never holds a lock and
// the baton holder never blocks (sync-aware mode).
//
//go:norace
func LockDepth(d int32) {
	if active == 0 {
		return
	}
	lockDepth += d
	if lockDepth < 0 {
		lockDepth = 0
	}
}

// Yield is inserted by the rewriter at the top of every function body,
// function literal and loop body of the library.
//
//go:norace
func Yield(site int32) {
	if active == 0 {
		return
	}
	yields++
	if counting {
		if int(site) < len(siteHits) {
			siteHits[site]++
		}
		return
	}
	me := cur
	perTask[me]++
	if cfg.MaxYield != 0 && yields > cfg.MaxYield {
		panic(ErrBudget)
	}
	if lockDepth > 0 || nlive < 2 {
		return
	}
	var to int32
	switch cfg.Mode {
	case 0:
		if yields < nextDec {
			return
		}
		nextDec = yields + 1 + intn(2*cfg.MeanGap+1)
		if nSwitch >= cfg.MaxSw {
			return
		}
		to = randomLive()
	case 1:
		if int(site) >= len(siteOn) || !siteOn[site] {
			return
		}
		if uint32(next64()&0xffff) >= cfg.SiteProb || nSwitch >= cfg.MaxSw {
			return
		}
		to = randomLive()
	case 2:
		if pctNext >= len(pctPoints) || yields < pctPoints[pctNext] {
			return
		}
		pctNext++
		prio[me] = pctLow
		pctLow--
		to = highest()
	case 3:
		if replayPos >= len(cfg.Replay) {
			return
		}
		r := cfg.Replay[replayPos]
		if r.Site == -1 {
			return // waiting for a task exit
		}
		if yields < r.Yield {
			return
		}
		replayPos++
		to = r.To
		// From is not enforced: a minimised log is a sub-list of the
		// original and the running task may legitimately differ
		if to < 0 || to >= ntasks || !live[to] {
			diverged = true
			return
		}
	}
	if to == me || to < 0 {
		return
	}
	nSwitch++
	if len(swLog) < 200000 {
		swLog = append(swLog, Switch{yields, site, me, to})
	}
	handOver(me, to)
}

// Report is read by the driver after WaitDone.
type Report struct {
	Yields   uint64
	Switches int
	Log      []Switch
	Diverged bool
	PerTask  []uint64
}

//go:norace
func GetReport() Report {
	pt := make([]uint64, ntasks)
	for i := range pt {
		pt[i] = perTask[i]
	}
	return Report{yields, nSwitch, swLog, diverged, pt}
}

// Counting mode for solo runs: yields are counted, nothing is scheduled.
//
//go:norace
func CountOnly(on bool) {
	counting = on
	if siteHits == nil {
		siteHits = make([]uint32, 1<<16)
	}
	if on {
		cfg = Config{Mode: 0, MeanGap: 1 << 62}
		nlive = 1
		ntasks = 1
		cur = 0
		live[0] = true
		yields = 0
		perTask[0] = 0
		lockDepth = 0
		nextDec = 1 << 63
		active = 1
	} else {
		active = 0
	}
}

//go:norace
func YieldCount() uint64 { return yields }

// SiteHits returns (site, count) pairs accumulated by the counting mode.
//
//go:norace
func SiteHits() [][2]uint32 {
	var out [][2]uint32
	for i, c := range siteHits {
		if c != 0 {
			out = append(out, [2]uint32{uint32(i), c})
		}
	}
	return out
}

// rewrite instruments a scratch copy of the library for schedsim:
//   - inserts verifhook.Yield(site) at the top of every function body,
//     function literal, for body and range body of every non-test file;
//   - brackets Lock/Unlock/Once.Do with verifhook.LockDepth so that no context
//     switch happens while a library lock is held (sync-aware mode);
//   - generates, per package, a file registering the address of every
//     package-level variable with the hook (oracle c);
//   - writes sites.json (site -> file:line:function) and census.json (every
//     synchronisation construct found in library code).
//
package rewrite

import (
	"encoding/json"
	"fmt"
	"go/ast"
	"go/parser"
	"go/printer"
	"go/token"
	"io/ioutil"
	"os"
	"path/filepath"
	"sort"
	"strconv"
	"strings"
)

const modulePath = "github.com/makiuchi-d/gozxing"
const hookPath = modulePath + "/verifhook"

type site struct {
	ID   int    `json:"id"`
	File string `json:"file"`
	Line int    `json:"line"`
	Func string `json:"func"`
	Kind string `json:"kind"`
}

// Census is what the rewriter found.
type Census = census

type census struct {
	SyncImports []string `json:"sync_imports"`
	Atomic      []string `json:"atomic_imports"`
	Unsupported []string `json:"unsupported"` // go statements, channels, select, WaitGroup, Cond
	Locks       int      `json:"lock_brackets"`
	Vars        int      `json:"package_vars"`
	Sites       int      `json:"sites"`
	Files       int      `json:"files"`
}

var (
	sites []site
	cen   census
)

func yieldStmt(id int) ast.Stmt {
	return &ast.ExprStmt{X: &ast.CallExpr{
		Fun:  &ast.SelectorExpr{X: ast.NewIdent("verifhook"), Sel: ast.NewIdent("Yield")},
		Args: []ast.Expr{&ast.BasicLit{Kind: token.INT, Value: strconv.Itoa(id)}},
	}}
}

func depthStmt(d int) ast.Stmt {
	return &ast.ExprStmt{X: &ast.CallExpr{
		Fun:  &ast.SelectorExpr{X: ast.NewIdent("verifhook"), Sel: ast.NewIdent("LockDepth")},
		Args: []ast.Expr{&ast.BasicLit{Kind: token.INT, Value: strconv.Itoa(d)}},
	}}
}

func selName(e ast.Expr) string {
	if c, ok := e.(*ast.CallExpr); ok {
		if s, ok := c.Fun.(*ast.SelectorExpr); ok {
			return s.Sel.Name
		}
	}
	return ""
}

// bracketLocks rewrites a statement list for sync-aware mode.
func bracketLocks(list []ast.Stmt) []ast.Stmt {
	var out []ast.Stmt
	for _, st := range list {
		switch s := st.(type) {
		case *ast.ExprStmt:
			switch selName(s.X) {
			case "Lock", "RLock":
				out = append(out, st, depthStmt(1))
				cen.Locks++
				continue
			case "Unlock", "RUnlock":
				out = append(out, depthStmt(-1), st)
				continue
			case "Do":
				out = append(out, depthStmt(1), st, depthStmt(-1))
				cen.Locks++
				continue
			}
		case *ast.DeferStmt:
			switch selName(s.Call) {
			case "Unlock", "RUnlock":
				// defer func() { verifhook.LockDepth(-1); x.Unlock() }()
				fl := &ast.FuncLit{Type: &ast.FuncType{Params: &ast.FieldList{}}, Body: &ast.BlockStmt{List: []ast.Stmt{depthStmt(-1), &ast.ExprStmt{X: s.Call}}}}
				out = append(out, &ast.DeferStmt{Call: &ast.CallExpr{Fun: fl}})
				continue
			}
		}
		out = append(out, st)
	}
	return out
}

// syncCallNames are method / function names that (in a file importing sync or
// sync/atomic) mark a statement as synchronisation-adjacent.
var syncCallNames = map[string]bool{"Load": true, "Store": true, "Swap": true, "CompareAndSwap": true, "Add": true,
	"Lock": true, "Unlock": true, "RLock": true, "RUnlock": true, "Get": true, "Put": true, "Do": true,
	"LoadOrStore": true, "LoadAndDelete": true, "Delete": true, "Range": true}

func touchesSync(st ast.Stmt) bool {
	found := false
	ast.Inspect(st, func(n ast.Node) bool {
		if _, ok := n.(*ast.FuncLit); ok {
			return false
		}
		if c, ok := n.(*ast.CallExpr); ok {
			if sel, ok := c.Fun.(*ast.SelectorExpr); ok {
				if id, ok := sel.X.(*ast.Ident); ok && id.Name == "atomic" {
					found = true
				}
				if syncCallNames[sel.Sel.Name] || strings.HasPrefix(sel.Sel.Name, "CompareAndSwap") {
					found = true
				}
			}
		}
		return !found
	})
	return found
}

// stmtYields inserts a yield before every statement of a list (so that any
// two adjacent statements can be separated by a context switch), and marks
// the yields around statements that touch sync / sync/atomic as kind "sync".
func stmtYields(list []ast.Stmt, addSite func(token.Pos, string) int, usesSync bool) []ast.Stmt {
	out := make([]ast.Stmt, 0, 2*len(list)+1)
	for _, st := range list {
		if es, ok := st.(*ast.ExprStmt); ok {
			if c, ok := es.X.(*ast.CallExpr); ok {
				if sel, ok := c.Fun.(*ast.SelectorExpr); ok {
					if id, ok := sel.X.(*ast.Ident); ok && id.Name == "verifhook" {
						out = append(out, st) // our own instrumentation
						continue
					}
				}
			}
		}
		switch st.(type) {
		case *ast.CaseClause, *ast.CommClause:
			out = append(out, st) // the body of a switch is a list of clauses, not statements
			continue
		}
		if !st.Pos().IsValid() {
			out = append(out, st)
			continue
		}
		kind := "stmt"
		sy := usesSync && touchesSync(st)
		if sy {
			kind = "sync"
		}
		out = append(out, yieldStmt(addSite(st.Pos(), kind)), st)
		if sy {
			switch st.(type) {
			case *ast.ReturnStmt, *ast.BranchStmt:
			default:
				out = append(out, yieldStmt(addSite(st.Pos(), "sync")))
			}
		}
	}
	return out
}

func instrumentFile(fset *token.FileSet, rel string, f *ast.File) {
	usesSync := false
	for _, im := range f.Imports {
		if p := strings.Trim(im.Path.Value, `"`); p == "sync" || p == "sync/atomic" {
			usesSync = true
		}
	}
	curFunc := "init"
	addSite := func(pos token.Pos, kind string) int {
		id := len(sites)
		sites = append(sites, site{id, rel, fset.Position(pos).Line, curFunc, kind})
		return id
	}
	var visit func(n ast.Node) bool
	visit = func(n ast.Node) bool {
		switch x := n.(type) {
		case *ast.FuncDecl:
			if x.Body == nil {
				return false
			}
			prev := curFunc
			curFunc = x.Name.Name
			if x.Recv != nil && len(x.Recv.List) > 0 {
				t := x.Recv.List[0].Type
				if st, ok := t.(*ast.StarExpr); ok {
					t = st.X
				}
				if id, ok := t.(*ast.Ident); ok {
					curFunc = id.Name + "." + x.Name.Name
				}
			}
			id := addSite(x.Pos(), "func")
			ast.Inspect(x.Body, visit)
			x.Body.List = append([]ast.Stmt{yieldStmt(id)}, x.Body.List...)
			curFunc = prev
			return false
		case *ast.FuncLit:
			id := addSite(x.Pos(), "funclit")
			ast.Inspect(x.Body, visit)
			x.Body.List = append([]ast.Stmt{yieldStmt(id)}, x.Body.List...)
			return false
		case *ast.ForStmt:
			id := addSite(x.Pos(), "for")
			if x.Init != nil {
				ast.Inspect(x.Init, visit)
			}
			if x.Cond != nil {
				ast.Inspect(x.Cond, visit)
			}
			if x.Post != nil {
				ast.Inspect(x.Post, visit)
			}
			ast.Inspect(x.Body, visit)
			x.Body.List = append([]ast.Stmt{yieldStmt(id)}, x.Body.List...)
			return false
		case *ast.RangeStmt:
			id := addSite(x.Pos(), "range")
			ast.Inspect(x.X, visit)
			ast.Inspect(x.Body, visit)
			x.Body.List = append([]ast.Stmt{yieldStmt(id)}, x.Body.List...)
			return false
		case *ast.BlockStmt:
			x.List = stmtYields(bracketLocks(x.List), addSite, usesSync)
		case *ast.CaseClause:
			x.Body = stmtYields(bracketLocks(x.Body), addSite, usesSync)
		case *ast.GoStmt:
			cen.Unsupported = append(cen.Unsupported, fmt.Sprintf("%s:%d go statement", rel, fset.Position(x.Pos()).Line))
		case *ast.SelectStmt:
			cen.Unsupported = append(cen.Unsupported, fmt.Sprintf("%s:%d select", rel, fset.Position(x.Pos()).Line))
		case *ast.ChanType:
			cen.Unsupported = append(cen.Unsupported, fmt.Sprintf("%s:%d channel type", rel, fset.Position(x.Pos()).Line))
		case *ast.SelectorExpr:
			if id, ok := x.X.(*ast.Ident); ok && id.Name == "sync" && (x.Sel.Name == "WaitGroup" || x.Sel.Name == "Cond") {
				cen.Unsupported = append(cen.Unsupported, fmt.Sprintf("%s:%d sync.%s", rel, fset.Position(x.Pos()).Line, x.Sel.Name))
			}
		}
		return true
	}
	for _, d := range f.Decls {
		ast.Inspect(d, visit)
	}
	// import
	imp := &ast.GenDecl{Tok: token.IMPORT, Specs: []ast.Spec{&ast.ImportSpec{
		Name: ast.NewIdent("verifhook"), Path: &ast.BasicLit{Kind: token.STRING, Value: strconv.Quote(hookPath)}}}}
	f.Decls = append([]ast.Decl{imp}, f.Decls...)
	// make sure the import is used even in files without a site
	f.Decls = append(f.Decls, &ast.GenDecl{Tok: token.VAR, Specs: []ast.Spec{&ast.ValueSpec{
		Names: []*ast.Ident{ast.NewIdent("_")}, Values: []ast.Expr{&ast.SelectorExpr{X: ast.NewIdent("verifhook"), Sel: ast.NewIdent("Yield")}}}}})
}

func Run(root string) error {
	sites = nil
	cen = census{}
	pkgVars := map[string][]string{} // dir -> var names
	pkgName := map[string]string{}
	var files []string
	filepath.Walk(root, func(p string, info os.FileInfo, err error) error {
		if err != nil {
			return err
		}
		if info.IsDir() {
			b := info.Name()
			if b == "verifhook" || b == "testdata" || b == "testutil" || strings.HasPrefix(b, ".") && p != root {
				return filepath.SkipDir
			}
			return nil
		}
		if strings.HasSuffix(p, ".go") && !strings.HasSuffix(p, "_test.go") {
			files = append(files, p)
		}
		return nil
	})
	sort.Strings(files)
	for _, p := range files {
		rel, _ := filepath.Rel(root, p)
		fset := token.NewFileSet()
		f, err := parser.ParseFile(fset, p, nil, 0) // comments dropped on purpose
		if err != nil {
			return fmt.Errorf("rewrite: cannot parse %s: %v", rel, err)
		}
		dir := filepath.Dir(p)
		pkgName[dir] = f.Name.Name
		for _, im := range f.Imports {
			switch strings.Trim(im.Path.Value, `"`) {
			case "sync":
				cen.SyncImports = append(cen.SyncImports, rel)
			case "sync/atomic":
				cen.Atomic = append(cen.Atomic, rel)
			}
		}
		for _, d := range f.Decls {
			if g, ok := d.(*ast.GenDecl); ok && g.Tok == token.VAR {
				for _, sp := range g.Specs {
					for _, n := range sp.(*ast.ValueSpec).Names {
						if n.Name != "_" {
							pkgVars[dir] = append(pkgVars[dir], n.Name)
						}
					}
				}
			}
		}
		instrumentFile(fset, rel, f)
		out, err := os.Create(p)
		if err != nil {
			return err
		}
		if err := printer.Fprint(out, token.NewFileSet(), f); err != nil {
			return fmt.Errorf("rewrite: cannot print %s: %v", rel, err)
		}
		out.Close()
		cen.Files++
	}
	// registration files
	var dirs []string
	for d := range pkgVars {
		dirs = append(dirs, d)
	}
	sort.Strings(dirs)
	for _, d := range dirs {
		rel, _ := filepath.Rel(root, d)
		imp := modulePath
		if rel != "." {
			imp += "/" + filepath.ToSlash(rel)
		}
		var sb strings.Builder
		sb.WriteString("// Code generated by verif rewrite. DO NOT EDIT.\n\n//go:build verif\n// +build verif\n\npackage " + pkgName[d] + "\n\n")
		sb.WriteString("import verifhook \"" + hookPath + "\"\n\nfunc init() {\n")
		for _, v := range pkgVars[d] {
			sb.WriteString(fmt.Sprintf("\tverifhook.Register(%q, &%s)\n", imp+"."+v, v))
			cen.Vars++
		}
		sb.WriteString("}\n")
		if err := ioutil.WriteFile(filepath.Join(d, "zz_verif_register.go"), []byte(sb.String()), 0644); err != nil {
			return err
		}
	}
	cen.Sites = len(sites)
	b, _ := json.MarshalIndent(sites, "", " ")
	ioutil.WriteFile(filepath.Join(root, "sites.json"), b, 0644)
	b, _ = json.MarshalIndent(cen, "", " ")
	ioutil.WriteFile(filepath.Join(root, "census.json"), b, 0644)
	return nil
}

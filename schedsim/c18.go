// Package schedsim decides C18: K caller goroutines with private reader and
// writer instances run whole-API operations of an instrumented scratch copy of
// the library; a seeded scheduler decides every interleaving at AST-inserted
// yield points; the race detector (whose happens-before graph does not
// contain the scheduler), per-call equality with the solo run, and
// immutability of package-level state are the oracles.
package schedsim

import (
	"bufio"
	"encoding/json"
	"fmt"
	"io/ioutil"
	"os"
	"os/exec"
	"path/filepath"
	"regexp"
	"runtime"
	"sort"
	"strings"
	"time"

	"verif/kit"
	"verif/schedsim/rewrite"
)

const (
	envScratch = "VERIF_C18_SCRATCH"
	repoDir    = "/repo"
	libPrefix  = "github.com/makiuchi-d/gozxing/"
)

// ---------------------------------------------------------------- build step

// Build makes the instrumented scratch copy and the race-enabled driver. It
// returns the scratch directory (to be removed by the caller).
func Build(verifDir string) (string, error) {
	scratch, err := ioutil.TempDir("", "verif-c18-")
	if err != nil {
		return "", err
	}
	run := func(dir string, name string, args ...string) error {
		cmd := exec.Command(name, args...)
		cmd.Dir = dir
		cmd.Env = append(os.Environ(), "GOFLAGS=-mod=mod", "GOPROXY=off", "GOSUMDB=off", "GOTOOLCHAIN=local")
		out, err := cmd.CombinedOutput()
		if err != nil {
			return fmt.Errorf("%s %v: %v\n%s", name, args, err, out)
		}
		return nil
	}
	repo := repoDir
	if v := os.Getenv("VERIF_REPO"); v != "" {
		repo = v // mutation campaigns on a copy
	}
	if err := run("", "rsync", "-a", "--exclude", ".git", repo+"/", filepath.Join(scratch, "repo")+"/"); err != nil {
		return scratch, err
	}
	hook := filepath.Join(scratch, "repo", "verifhook")
	os.MkdirAll(hook, 0755)
	files, _ := filepath.Glob(filepath.Join(verifDir, "schedsim", "hook", "*.go"))
	for _, f := range files {
		b, _ := ioutil.ReadFile(f)
		ioutil.WriteFile(filepath.Join(hook, filepath.Base(f)), b, 0644)
	}
	if err := rewrite.Run(filepath.Join(scratch, "repo")); err != nil {
		return scratch, err
	}
	drv := filepath.Join(scratch, "driver")
	os.MkdirAll(drv, 0755)
	files, _ = filepath.Glob(filepath.Join(verifDir, "schedsim", "driver", "*.go"))
	for _, f := range files {
		b, _ := ioutil.ReadFile(f)
		ioutil.WriteFile(filepath.Join(drv, filepath.Base(f)), b, 0644)
	}
	// reference senders the driver uses to make add-on, damaged and Aztec symbols
	for _, pkg := range []string{"gf", "onedref", "aztecref"} {
		dst := filepath.Join(drv, pkg)
		os.MkdirAll(dst, 0755)
		srcs, _ := filepath.Glob(filepath.Join(verifDir, "chansim", pkg, "*.go"))
		for _, f := range srcs {
			if strings.HasSuffix(f, "_test.go") {
				continue
			}
			b, _ := ioutil.ReadFile(f)
			b = []byte(strings.Replace(string(b), "\"verif/chansim/", "\"verifdriver/", -1))
			ioutil.WriteFile(filepath.Join(dst, filepath.Base(f)), b, 0644)
		}
	}
	gomod := "module verifdriver\n\ngo 1.17\n\nrequire github.com/makiuchi-d/gozxing v0.0.0\n\nreplace github.com/makiuchi-d/gozxing => ../repo\n"
	ioutil.WriteFile(filepath.Join(drv, "go.mod"), []byte(gomod), 0644)
	if b, err := ioutil.ReadFile(filepath.Join(repo, "go.sum")); err == nil {
		ioutil.WriteFile(filepath.Join(drv, "go.sum"), b, 0644)
	}
	if err := run(drv, "go", "build", "-race", "-tags", "verif", "-trimpath", "-o", filepath.Join(scratch, "driver.bin"), "."); err != nil {
		return scratch, err
	}
	os.MkdirAll(filepath.Join(scratch, "runs"), 0755)
	return scratch, nil
}

// Census read back from the scratch copy.
func readCensus(scratch string) (*rewrite.Census, error) {
	b, err := ioutil.ReadFile(filepath.Join(scratch, "repo", "census.json"))
	if err != nil {
		return nil, err
	}
	c := &rewrite.Census{}
	return c, json.Unmarshal(b, c)
}

// ---------------------------------------------------------------- driver protocol

type OpSpec struct {
	K string `json:"k"`
	S uint64 `json:"s"`
	P int    `json:"p,omitempty"`
}

type Switch struct {
	Yield uint64
	Site  int32
	From  int32
	To    int32
}

type SchedCfg struct {
	Seed     uint64
	Mode     int
	MeanGap  uint64
	Sites    []int32
	SiteProb uint32
	PCTDepth int
	PCTSpan  uint64
	Replay   []Switch
	MaxSw    int
	MaxYield uint64
	NumSites int
}

type Trace18 struct {
	Tasks [][]OpSpec `json:"tasks"`
	Sched SchedCfg   `json:"sched"`
	// expectation of a stored violation, for replay
	RaceKey string `json:"race_key,omitempty"`
}

type driverResult struct {
	Mode       string     `json:"mode"`
	Digests    [][]string `json:"digests"`
	OpYields   [][]uint64 `json:"op_yields"`
	Yields     uint64     `json:"yields"`
	Switches   int        `json:"switches"`
	LogHash    string     `json:"log_hash"`
	Log        []Switch   `json:"log"`
	Diverged   bool       `json:"diverged"`
	StateDiff  []string   `json:"state_diff"`
	StateWords int        `json:"state_words"`
	StateVars  int        `json:"state_vars"`
	SiteHits   [][2]uint32 `json:"site_hits"`
	Stalled    bool       `json:"stalled"`
}

type raceReport struct {
	Frames [2]string // top library frame of each access ("" if none / not restored)
	Lib    [2]bool
	Restored [2]bool
	Text   string
}

func (r raceReport) key() string {
	a, b := r.Frames[0], r.Frames[1]
	if a > b {
		a, b = b, a
	}
	return a + " <-> " + b
}

var hexRe = regexp.MustCompile(`0x[0-9a-f]+`)

func parseRaceLog(path string) []raceReport {
	f, err := os.Open(path)
	if err != nil {
		return nil
	}
	defer f.Close()
	var reps []raceReport
	var cur *raceReport
	sec := -1
	sc := bufio.NewScanner(f)
	sc.Buffer(make([]byte, 1<<20), 1<<20)
	for sc.Scan() {
		line := sc.Text()
		switch {
		case strings.HasPrefix(line, "WARNING: DATA RACE"):
			reps = append(reps, raceReport{})
			cur = &reps[len(reps)-1]
			sec = -1
		case cur == nil:
		case strings.HasPrefix(line, "=================="):
			sec = -1
		case strings.HasPrefix(line, "Read at") || strings.HasPrefix(line, "Write at") || strings.HasPrefix(line, "Previous read at") || strings.HasPrefix(line, "Previous write at"):
			sec++
			if sec < 2 {
				cur.Restored[sec] = true
			}
			cur.Text += hexRe.ReplaceAllString(line, "0x?") + "\n"
		case strings.HasPrefix(line, "Goroutine "):
			sec = 2
		case sec >= 0 && sec < 2 && strings.HasPrefix(line, "  [failed to restore the stack]"):
			cur.Restored[sec] = false
		case sec >= 0 && sec < 2 && strings.HasPrefix(line, "  ") && !strings.HasPrefix(line, "   "):
			fn := strings.TrimSpace(line)
			if i := strings.LastIndex(fn, "("); i > 0 {
				fn = fn[:i]
			}
			// library frames: sub-packages ("…/gozxing/oned.f") and the root
			// package ("…/gozxing.f"), never the scheduler hook
			root := strings.TrimSuffix(libPrefix, "/") + "."
			if (strings.HasPrefix(fn, libPrefix) || strings.HasPrefix(fn, root)) && !strings.Contains(fn, "/verifhook.") {
				if !cur.Lib[sec] {
					cur.Lib[sec] = true
					if strings.HasPrefix(fn, root) {
						cur.Frames[sec] = "gozxing." + strings.TrimPrefix(fn, root)
					} else {
						cur.Frames[sec] = strings.TrimPrefix(fn, libPrefix)
					}
				}
			}
			if len(cur.Text) < 1500 {
				cur.Text += "  " + fn + "\n"
			}
		}
	}
	return reps
}

type simOutcome struct {
	solo, sim *driverResult
	races     []raceReport
}

func scratchDir() string { return os.Getenv(envScratch) }

func runDriver(dir, mode string, tr *Trace18, raceLog string, extra ...string) (*driverResult, error) {
	scratch := scratchDir()
	in := filepath.Join(dir, mode+"-trace.json")
	out := filepath.Join(dir, mode+"-result.json")
	os.Remove(out)
	b, _ := json.Marshal(tr)
	if err := ioutil.WriteFile(in, b, 0644); err != nil {
		return nil, err
	}
	args := append([]string{"-mode", mode, "-in", in, "-out", out, "-repo", filepath.Join(scratch, "repo")}, extra...)
	cmd := exec.Command(filepath.Join(scratch, "driver.bin"), args...)
	env := os.Environ()
	gorace := "halt_on_error=0 history_size=3"
	if raceLog != "" {
		gorace += " log_path=" + raceLog
	}
	gmp := "4"
	if v := os.Getenv("VERIF_GOMAXPROCS"); v != "" {
		gmp = v
	}
	cmd.Env = append(env, "GORACE="+gorace, "GOMAXPROCS="+gmp)
	done := make(chan error, 1)
	var stderr strings.Builder
	cmd.Stderr = &stderr
	if err := cmd.Start(); err != nil {
		return nil, err
	}
	go func() { done <- cmd.Wait() }()
	select {
	case err := <-done:
		if err != nil {
			if _, statErr := os.Stat(out); statErr != nil {
				return nil, fmt.Errorf("driver %s: %v: %s", mode, err, stderr.String())
			}
			// the race runtime exits 66 when races were reported; the result file exists
		}
	case <-time.After(10 * time.Minute):
		cmd.Process.Kill()
		<-done
		return nil, fmt.Errorf("driver %s: harness watchdog (10 min)", mode)
	}
	rb, err := ioutil.ReadFile(out)
	if err != nil {
		return nil, err
	}
	res := &driverResult{}
	if err := json.Unmarshal(rb, res); err != nil {
		return nil, err
	}
	return res, nil
}

// soloPerTask is set in sync-aware mode: every task script is then run alone
// in its own fresh process, because process-wide state the library
// synchronises itself (pools, locked caches) would otherwise carry over from
// one task's solo run to the next and contaminate the reference. In sync-free
// mode oracle (c) already guarantees that no process-wide state changes.
var soloPerTask bool

type soloEntry struct {
	digests  []string
	opYields []uint64
	yields   uint64
	hits     [][2]uint32
}

var soloCache = map[string]soloEntry{}

func soloRun(dir string, tr *Trace18) (*driverResult, error) {
	if !soloPerTask {
		return runDriver(dir, "solo", tr, "")
	}
	// a task's solo result depends on its script alone: cached per script
	// (minimisation re-runs many sub-lists of the same scripts)
	merged := &driverResult{Mode: "solo", Digests: make([][]string, len(tr.Tasks)), OpYields: make([][]uint64, len(tr.Tasks))}
	for i := range tr.Tasks {
		kb, _ := json.Marshal(tr.Tasks[i])
		key := string(kb)
		ent, ok := soloCache[key]
		if !ok {
			one := &Trace18{Tasks: [][]OpSpec{tr.Tasks[i]}}
			r, err := runDriver(dir, "solo", one, "", "-task", "0")
			if err != nil {
				return nil, err
			}
			ent = soloEntry{r.Digests[0], r.OpYields[0], r.Yields, r.SiteHits}
			if len(soloCache) < 5000 {
				soloCache[key] = ent
			}
		}
		merged.Digests[i] = ent.digests
		merged.OpYields[i] = ent.opYields
		merged.Yields += ent.yields
		merged.SiteHits = append(merged.SiteHits, ent.hits...)
	}
	return merged, nil
}

// simulate runs solo + sim for one trace and gathers oracle inputs.
func simulate(dir string, tr *Trace18, soloCache *driverResult) (*simOutcome, error) {
	os.MkdirAll(dir, 0755)
	solo := soloCache
	var err error
	if solo == nil {
		solo, err = soloRun(dir, tr)
		if err != nil {
			return nil, err
		}
	}
	t := *tr
	if t.Sched.MaxYield == 0 {
		t.Sched.MaxYield = 100*solo.Yields + 1000000
	}
	if t.Sched.Mode == 2 && t.Sched.PCTSpan == 0 {
		t.Sched.PCTSpan = solo.Yields
	}
	old, _ := filepath.Glob(filepath.Join(dir, "race.*"))
	for _, f := range old {
		os.Remove(f)
	}
	sim, err := runDriver(dir, "sim", &t, filepath.Join(dir, "race"))
	if err != nil {
		return nil, err
	}
	var races []raceReport
	logs, _ := filepath.Glob(filepath.Join(dir, "race.*"))
	for _, l := range logs {
		races = append(races, parseRaceLog(l)...)
	}
	return &simOutcome{solo, sim, races}, nil
}

type verdict struct {
	class, key, detail string
}

// judge applies the three oracles. syncFree says whether oracle (c) applies.
func judge(o *simOutcome, syncFree bool) (vs []verdict, harness string) {
	if o.sim.Stalled {
		// the running task blocked for real and nobody else can run: with
		// private instances per task this can only be library-level shared
		// state (a lock left held, a wait never signalled)
		return []verdict{{"liveness", "liveness:stalled", "under this interleaving no task executed a yield point for 15 s: a task is blocked inside the library (e.g. on a library lock that a panicking or parked call never released); every call returns when run alone"}}, ""
	}
	// (c) shared state immutable after init
	if syncFree && len(o.sim.StateDiff) > 0 {
		vs = append(vs, verdict{"state", "state:" + o.sim.StateDiff[0],
			fmt.Sprintf("package-level state changed during reader/writer calls (library contains no synchronisation): %s", strings.Join(o.sim.StateDiff, ", "))})
	}
	// (a) race detector
	seen := map[string]bool{}
	for _, r := range o.races {
		lib := false
		harnessOnly := true
		for i := 0; i < 2; i++ {
			if r.Lib[i] {
				lib = true
			}
			if r.Lib[i] || !r.Restored[i] {
				harnessOnly = false
			}
		}
		allLib := true
		for i := 0; i < 2; i++ {
			if r.Restored[i] && !r.Lib[i] {
				allLib = false
			}
		}
		if harnessOnly {
			harness = "race report with harness-only stacks:\n" + r.Text
			continue
		}
		if !lib || !allLib {
			harness = "race report mixing harness and library frames:\n" + r.Text
			continue
		}
		k := r.key()
		if seen[k] {
			continue
		}
		seen[k] = true
		vs = append(vs, verdict{"race", "race:" + k, "data race on library-level shared state between " + k + "\n" + r.Text})
	}
	// (b) solo equality
	for i := range o.solo.Digests {
		if i >= len(o.sim.Digests) {
			break
		}
		for j := range o.solo.Digests[i] {
			if j >= len(o.sim.Digests[i]) {
				vs = append(vs, verdict{"result", "result:missing", fmt.Sprintf("task %d op %d produced no result in the concurrent run", i, j)})
				break
			}
			if o.solo.Digests[i][j] != o.sim.Digests[i][j] {
				a, b := o.solo.Digests[i][j], o.sim.Digests[i][j]
				cls := "result"
				if strings.HasPrefix(b, "ABORTED") {
					cls = "liveness"
				}
				vs = append(vs, verdict{cls, cls + ":differs-from-solo", fmt.Sprintf("task %d op %d returned something else than when run alone\n  alone:      %.300s\n  concurrent: %.300s", i, j, a, b)})
				return vs, harness
			}
		}
	}
	return vs, harness
}

// ---------------------------------------------------------------- generation

var opKinds = []string{"qr", "dm", "ean13", "ean8", "upca", "upce", "code39", "code93", "code128", "itf", "codabar", "qrmulti", "aztec", "rs", "bin", "eci", "eanext", "qrdmg", "dmdmg", "aztecgen", "qreci", "faint", "rssimg", "photo", "parentcrop"}

func gen18(c *kit.Ctx, numSites int, syncFree bool) *Trace18 {
	r := c.RNG
	tr := &Trace18{}
	raceHunt := r.Chance(3, 4)
	k := r.Range(2, 8)
	if !raceHunt {
		k = r.Range(2, 64)
		if r.Chance(1, 2) {
			k = r.Range(9, 24)
		}
	}
	if !syncFree && k > 8 {
		k = r.Range(2, 8) // sync-aware mode runs every task's solo reference in its own process
	}
	// swarm: per-run workload mix
	weights := make([]int, len(opKinds))
	for i := range weights {
		if r.Chance(6, 10) {
			weights[i] = r.Range(1, 5)
		}
	}
	same := r.Chance(1, 3) // all tasks perform the same kind: maximises contention on one package
	sameKind := opKinds[r.Intn(len(opKinds))]
	sameP := r.Intn(26)
	maxOps := 6
	if k > 16 {
		maxOps = 2
	}
	for t := 0; t < k; t++ {
		n := r.Range(1, maxOps)
		var script []OpSpec
		for i := 0; i < n; i++ {
			kind := opKinds[r.Weighted(weights)]
			if same {
				kind = sameKind
			}
			p := r.Intn(6)
			if (kind == "qr" || kind == "dm") && r.Chance(3, 4) {
				p = r.Intn(3) // mostly small symbols
			}
			if kind == "qreci" {
				p = r.Intn(26)
			}
			if same && r.Chance(2, 3) {
				p = sameP // same selector (character set, field, image) in every task: maximal contention on one shared object
			}
			script = append(script, OpSpec{K: kind, S: r.Uint64() >> 11, P: p})
		}
		tr.Tasks = append(tr.Tasks, script)
	}
	s := &tr.Sched
	s.Seed = r.Uint64()
	s.MaxSw = 20000
	switch r.Intn(10) {
	case 0, 1, 2, 3, 4:
		s.Mode = 0
		// log-uniform mean gap in 50..50000
		g := 50.0
		for i, n := 0, r.Intn(1000); i < n; i++ {
			g *= 1.00693 // 1000 steps = x1000
		}
		s.MeanGap = uint64(g)
	case 5, 6, 7:
		s.Mode = 1
		n := r.Range(1, 20)
		for i := 0; i < n; i++ {
			s.Sites = append(s.Sites, int32(r.Intn(numSites)))
		}
		s.SiteProb = uint32(r.Range(64, 65535))
	default:
		s.Mode = 2
		s.PCTDepth = r.Range(1, 5)
	}
	return tr
}

// chooseSites fills in the site-targeted mode from the solo profile: sites
// are drawn uniformly from the distinct sites the workload executes (so a
// rarely executed site such as a generator-cache fill is as likely as a hot
// loop), and the switch probability aims at a few hundred switches.
func chooseSites(r *kit.RNG, s *SchedCfg, solo *driverResult, syncSites map[int32]bool) {
	if s.Mode != 1 || len(solo.SiteHits) == 0 {
		return
	}
	pool := solo.SiteHits
	if len(syncSites) > 0 && r.Chance(2, 3) {
		// the library synchronises something: most site-targeted runs put
		// their switches right before / after its sync and atomic operations
		var sp [][2]uint32
		for _, h := range solo.SiteHits {
			if syncSites[int32(h[0])] {
				sp = append(sp, h)
			}
		}
		if len(sp) > 0 {
			pool = sp
		}
	}
	n := len(s.Sites)
	s.Sites = s.Sites[:0]
	var hits uint64
	for i := 0; i < n; i++ {
		h := pool[r.Intn(len(pool))]
		s.Sites = append(s.Sites, int32(h[0]))
		hits += uint64(h[1])
	}
	target := uint64(r.Range(5, 2000))
	p := uint64(65535)
	if hits > target {
		p = target * 65536 / hits
		if p < 1 {
			p = 1
		}
	}
	s.SiteProb = uint32(p)
}

// ---------------------------------------------------------------- the run

type env18 struct {
	syncFree  bool
	numSites  int
	census    *rewrite.Census
	syncSites map[int32]bool // sites adjacent to a sync / sync/atomic operation
}

func loadEnv() (*env18, error) {
	c, err := readCensus(scratchDir())
	if err != nil {
		return nil, err
	}
	e := &env18{syncFree: len(c.SyncImports) == 0 && len(c.Atomic) == 0 && len(c.Unsupported) == 0, numSites: c.Sites, census: c, syncSites: map[int32]bool{}}
	if !e.syncFree {
		var ss []struct {
			ID   int32  `json:"id"`
			Kind string `json:"kind"`
		}
		if b, err := ioutil.ReadFile(filepath.Join(scratchDir(), "repo", "sites.json")); err == nil && json.Unmarshal(b, &ss) == nil {
			for _, x := range ss {
				if x.Kind == "sync" {
					e.syncSites[x.ID] = true
				}
			}
		}
	}
	return e, nil
}

func runDir(c *kit.Ctx, tag string) string {
	return filepath.Join(scratchDir(), "runs", fmt.Sprintf("%s-%d-%s", c.Tier, c.Run, tag))
}

func pairsOf(log []Switch) map[[2]int32]bool {
	parked := map[int32]int32{}
	out := map[[2]int32]bool{}
	for _, e := range log {
		if e.Site >= 0 {
			resume, ok := parked[e.To]
			if !ok {
				resume = -2
			}
			out[[2]int32{e.Site, resume}] = true
			parked[e.From] = e.Site
		}
	}
	return out
}

var minimised = map[string]bool{}

func run18(c *kit.Ctx, e *env18) {
	tr := gen18(c, e.numSites, e.syncFree)
	dir := runDir(c, "a")
	defer os.RemoveAll(dir)
	soloPerTask = !e.syncFree
	solo, err := soloRun(mk(dir), tr)
	if err != nil {
		c.Fatal(err.Error())
		return
	}
	chooseSites(c.RNG, &tr.Sched, solo, e.syncSites)
	o, err := simulate(dir, tr, solo)
	if err != nil {
		c.Fatal(err.Error())
		return
	}
	if o.sim.StateWords < 0 {
		c.Fatal("state walker exceeded its word budget (package-level state too large or too shared to digest)")
		return
	}
	account(c, tr, o)
	vs, harness := judge(o, e.syncFree)
	if harness != "" {
		c.Fatal(harness)
		return
	}
	if len(vs) == 0 {
		return
	}
	first := 0
	if !minimised[vs[0].key] && len(minimised) < 2 {
		// minimise once per violation key and worker process
		minimised[vs[0].key] = true
		first = 1
		min := minimise18(c, e, tr, o, vs[0])
		c.Violate(vs[0].class, vs[0].key, vs[0].detail, min)
	}
	for _, v := range vs[first:] {
		// further verdicts of the same run share the (un-minimised) exact schedule
		t := *tr
		t.Sched = SchedCfg{Mode: 3, Replay: o.sim.Log, MaxSw: 1 << 30}
		if v.class == "race" {
			t.RaceKey = v.key
		}
		c.Violate(v.class, v.key, v.detail, &t)
	}
}

func mk(dir string) string { os.MkdirAll(dir, 0755); return dir }

func account(c *kit.Ctx, tr *Trace18, o *simOutcome) {
	c.Steps(int64(o.sim.Yields))
	c.Event(fmt.Sprintf("%s|%d|%d|%v", o.sim.LogHash, o.sim.Yields, o.sim.Switches, o.sim.Digests))
	nops := 0
	for _, t := range tr.Tasks {
		nops += len(t)
	}
	c.Count("ops_executed_concurrently", nops)
	c.Count("context_switches", o.sim.Switches)
	c.Count(fmt.Sprintf("mode.%s", []string{"gap", "site_targeted", "pct", "replay"}[tr.Sched.Mode]), 1)
	c.Count("tasks", len(tr.Tasks))
	if o.sim.Switches == 0 {
		c.Count("probe.runs_without_a_switch", 1)
	}
	if o.sim.Yields != o.solo.Yields {
		c.Count("probe.yield_total_differs_from_solo", 1)
	}
	for _, t := range tr.Tasks {
		for _, op := range t {
			c.Count("op."+op.K, 1)
		}
	}
	// distinct interleavings: switch-log hash; non-trivial = at least one switch
	c.Eval(kit.Hash64([]byte(o.sim.LogHash+fmt.Sprint(tr.Tasks))), o.sim.Switches > 0)
	c.Note("package_state", fmt.Sprintf("%d registered package-level variables, %d words reachable", o.sim.StateVars, o.sim.StateWords))
	pairs := pairsOf(o.sim.Log)
	for pr := range pairs {
		c.Distinct("site_pairs_adjacent_across_a_switch", uint64(uint32(pr[0]))<<32|uint64(uint32(pr[1])))
		c.Distinct("sites_switched_at", uint64(uint32(pr[0])))
	}
	c.Distinct("switch_log_hashes", kit.Hash64([]byte(o.sim.LogHash)))
	if c.Run < 2 {
		c.Sample(map[string]interface{}{"tasks": tr.Tasks, "mode": tr.Sched.Mode, "yields": o.sim.Yields, "switches": o.sim.Switches, "log_hash": o.sim.LogHash})
	}
}

// still reports whether the candidate trace still shows a violation of the
// same class/key.
// minDeadline bounds the wall time spent minimising one violation (a
// reporting convenience: the un-minimised schedule already replays exactly).
var minDeadline time.Time

func still(dir string, e *env18, tr *Trace18, v verdict, tries int) (bool, *simOutcome) {
	for i := 0; i < tries; i++ {
		if !minDeadline.IsZero() && time.Now().After(minDeadline) {
			return false, nil
		}
		o, err := simulate(dir, tr, nil)
		if err != nil {
			return false, nil
		}
		vs, _ := judge(o, e.syncFree)
		for _, x := range vs {
			if x.class == v.class && (v.class != "race" && v.class != "state" || x.key == v.key) {
				return true, o
			}
		}
	}
	return false, nil
}

func minimise18(c *kit.Ctx, e *env18, tr *Trace18, o *simOutcome, v verdict) *Trace18 {
	dir := runDir(c, "min")
	defer os.RemoveAll(dir)
	minDeadline = time.Now().Add(150 * time.Second)
	defer func() { minDeadline = time.Time{} }()
	tries := 1
	if v.class == "race" {
		tries = 3
	}
	// exact schedule of the failing run
	cur := *tr
	cur.Sched = SchedCfg{Mode: 3, Replay: o.sim.Log, MaxSw: 1 << 30}
	if v.class == "race" {
		cur.RaceKey = v.key
	}
	if ok, _ := still(dir, e, &cur, v, tries); !ok {
		// the stored schedule must reproduce; if it does not (pool edges can
		// hide a race), keep the generating configuration instead
		cur = *tr
		if v.class == "race" {
			cur.RaceKey = v.key
		}
		return &cur
	}
	budget := 40
	// 1. drop operations (flattened), keeping the schedule as a replay log
	type ref struct{ t, i int }
	var flat []ref
	for t := range cur.Tasks {
		for i := range cur.Tasks[t] {
			flat = append(flat, ref{t, i})
		}
	}
	build := func(keep []int, sched SchedCfg) *Trace18 {
		n := &Trace18{Sched: sched, RaceKey: cur.RaceKey}
		n.Tasks = make([][]OpSpec, len(cur.Tasks))
		for _, k := range keep {
			n.Tasks[flat[k].t] = append(n.Tasks[flat[k].t], cur.Tasks[flat[k].t][flat[k].i])
		}
		// drop empty tasks (renumbering invalidates a replay log, so this
		// stage uses the generating scheduler configuration)
		var tasks [][]OpSpec
		for _, t := range n.Tasks {
			if len(t) > 0 {
				tasks = append(tasks, t)
			}
		}
		n.Tasks = tasks
		return n
	}
	genSched := tr.Sched
	keep := kit.DDMin(len(flat), func(idx []int) bool {
		if budget <= 0 || len(idx) == 0 {
			return false
		}
		budget--
		cand := build(idx, genSched)
		if v.class != "state" && len(cand.Tasks) < 2 {
			return false
		}
		ok, _ := still(dir, e, cand, v, tries)
		return ok
	})
	if len(keep) < len(flat) && len(keep) > 0 {
		cand := build(keep, genSched)
		if ok, o2 := still(dir, e, cand, v, tries+2); ok {
			cur = *cand
			cur.Sched = SchedCfg{Mode: 3, Replay: o2.sim.Log, MaxSw: 1 << 30}
			if ok2, _ := still(dir, e, &cur, v, tries); !ok2 {
				cur = *cand
			}
		}
	}
	// 2. drop context switches from the replay log
	if cur.Sched.Mode == 3 && v.class != "state" {
		log := cur.Sched.Replay
		budget = 40
		ks := kit.DDMin(len(log), func(idx []int) bool {
			if budget <= 0 {
				return false
			}
			budget--
			cand := cur
			cand.Sched.Replay = nil
			for _, i := range idx {
				cand.Sched.Replay = append(cand.Sched.Replay, log[i])
			}
			ok, _ := still(dir, e, &cand, v, tries)
			return ok
		})
		if len(ks) < len(log) {
			cand := cur
			cand.Sched.Replay = nil
			for _, i := range ks {
				cand.Sched.Replay = append(cand.Sched.Replay, log[i])
			}
			if ok, _ := still(dir, e, &cand, v, tries+2); ok {
				cur = cand
			}
		}
	}
	return &cur
}

func replay18(c *kit.Ctx, e *env18, raw json.RawMessage) {
	tr := &Trace18{}
	if err := json.Unmarshal(raw, tr); err != nil {
		c.Fatal("bad trace: " + err.Error())
		return
	}
	soloPerTask = !e.syncFree
	dir := runDir(c, fmt.Sprintf("replay-%d", os.Getpid()))
	defer os.RemoveAll(dir)
	tries := 1
	if tr.RaceKey != "" || !e.syncFree {
		// sync.Pool edges inside fmt can hide (never invent) a race (DESIGN.md 4.5); and
		// a library that uses sync.Pool itself is not fully deterministic under any scheduler
		tries = 8
	}
	for i := 0; i < tries; i++ {
		o, err := simulate(dir, tr, nil)
		if err != nil {
			c.Fatal(err.Error())
			return
		}
		vs, _ := judge(o, e.syncFree)
		for _, v := range vs {
			if tr.RaceKey == "" || v.key == tr.RaceKey {
				c.Violate(v.class, v.key, v.detail, tr)
				return
			}
		}
		if len(vs) > 0 && i == tries-1 {
			c.Violate(vs[0].class, vs[0].key, vs[0].detail, tr)
		}
	}
}

// selfTest proves on every invocation that the baton is invisible to the race
// detector: two serialised conflicting writes must be reported.
func selfTest() error {
	dir := filepath.Join(scratchDir(), "runs", "selftest")
	os.MkdirAll(dir, 0755)
	defer os.RemoveAll(dir)
	_, err := runDriver(dir, "selftest", &Trace18{}, filepath.Join(dir, "race"))
	if err != nil {
		return err
	}
	logs, _ := filepath.Glob(filepath.Join(dir, "race.*"))
	n := 0
	for _, l := range logs {
		b, _ := ioutil.ReadFile(l)
		n += strings.Count(string(b), "WARNING: DATA RACE")
	}
	if n == 0 {
		return fmt.Errorf("baton self-test: two serialised conflicting writes were NOT reported by the race detector; the scheduler has become visible to it and oracle (a) would be blind")
	}
	return nil
}

// C18 returns the spec; Prepare must have been called (scratch in the env).
func C18() *kit.Spec {
	var e *env18
	get := func(c *kit.Ctx) *env18 {
		if e == nil {
			var err error
			e, err = loadEnv()
			if err != nil {
				c.Fatal("cannot read census: " + err.Error())
				return nil
			}
		}
		return e
	}
	return &kit.Spec{
		Property: "C18",
		Engine:   "schedsim",
		Level:    "exploration",
		Rule: "one evaluation = one simulated run: K caller goroutines (2..8 race-hunting, up to 64 result-equality) with private reader/writer instances execute scripts of whole-API operations (QR, Data Matrix, nine 1-D symbologies, multi-format UPC/EAN, RSS-14, QR multi, Aztec, direct Reed-Solomon, binarisers, ECI registry) on an instrumented copy of the library; " +
			"a seeded scheduler (gap / site-targeted / PCT) decides every context switch at AST-inserted yield points. distinct = distinct (switch-log hash, scripts); non-trivial = at least one context switch taken",
		StateMetric: "distinct switch-log hashes (interleavings) and (site, resumed site) pairs adjacent across a switch",
		Assumptions: []string{
			"oracle (a): Go race detector; the scheduler hands the baton over with raw futex system calls from //go:norace functions, so it adds no happens-before edge (self-tested on every invocation)",
			"oracle (b): each call's result digest equals that of the same task script run alone in a fresh process",
			"oracle (c): while the library contains no synchronisation construct, everything reachable from its package-level variables is bit-identical before and after the concurrent phase",
			"fmt's sync.Pool can hide (never invent) a race between two error-formatting paths; (c) does not depend on it",
			"a clean batch of sampled schedules is evidence, not proof",
		},
		Components: map[string]string{
			"library (all packages)":                 "real code, AST-instrumented scratch copy of /repo's working tree",
			"goroutine scheduler choice":             "simulated (seeded baton over raw futex)",
			"race detector":                          "Go runtime -race",
			"Aztec sender":                           "none needed here: third-party sample images from aztec/testdata are read",
			"clock":                                  "not simulated: the only use of time is the Result timestamp, excluded from digests",
		},
		FaultKinds:  []string{"context_switch"},
		Workers:     2 * runtime.NumCPU(), // runs mostly wait for futex wake-ups
		ReplayAttempts: 2, // a library using sync.Pool is not fully deterministic under any scheduler
		SimTimeNote: "none: the library has no timers; logical steps = yield points executed under the scheduler",
		NumRuns: func(tier string) int {
			if tier == "thorough" {
				return 24000
			}
			return 640
		},
		Run: func(c *kit.Ctx) {
			if en := get(c); en != nil {
				run18(c, en)
				c.Count("fault.context_switch", 0)
			}
		},
		Replay: func(c *kit.Ctx, raw json.RawMessage) {
			if en := get(c); en != nil {
				replay18(c, en, raw)
			}
		},
		Extra: func(tier string, cov map[string]interface{}) {
			if en, err := loadEnv(); err == nil {
				cov["instrumented_sites"] = en.census.Sites
				cov["instrumented_files"] = en.census.Files
				cov["registered_package_variables"] = en.census.Vars
				cov["sync_free_mode"] = en.syncFree
				cov["sync_census"] = map[string]interface{}{"sync_imports": en.census.SyncImports, "atomic_imports": en.census.Atomic, "unsupported": en.census.Unsupported, "lock_brackets": en.census.Locks}
			}
			if cs, ok := cov["counters"].(map[string]int64); ok {
				if f, ok := cov["fault_kinds_fired"].(map[string]int64); ok {
					f["context_switch"] = cs["context_switches"]
				}
			}
		},
	}
}

// Prepare builds the scratch copy unless this process is a worker or a
// replay confirmation spawned by the orchestrator (scratch already in env).
// It returns a cleanup function.
func Prepare() (func(), error) {
	if scratchDir() != "" {
		return func() {}, nil
	}
	t0 := time.Now()
	src := os.Getenv("VERIF_SCHEDSIM_SRC")
	if src == "" {
		src = kit.VerifDir()
	}
	scratch, err := Build(src)
	clean := func() {
		if scratch != "" {
			os.RemoveAll(scratch)
		}
	}
	if err != nil {
		return clean, err
	}
	os.Setenv(envScratch, scratch)
	c, err := readCensus(scratch)
	if err != nil {
		return clean, err
	}
	if len(c.Unsupported) > 0 {
		return clean, fmt.Errorf("unsupported construct in library code (schedsim cannot schedule it; exit 2, not a violation): %s", strings.Join(c.Unsupported, "; "))
	}
	if err := selfTest(); err != nil {
		return clean, err
	}
	fmt.Printf("schedsim: instrumented %d files, %d sites, %d package variables; race build + baton self-test ok (%.0fs)\n", c.Files, c.Sites, c.Vars, time.Since(t0).Seconds())
	return clean, nil
}

var _ = sort.Strings

//go:build verif
// +build verif

// The schedsim driver: built with -race against the instrumented scratch copy
// of the library. One process = one simulated run (mode sim), or the same
// task scripts run alone (mode solo), or the baton self-test.
package main

import (
	"crypto/sha256"
	"encoding/hex"
	"encoding/json"
	"flag"
	"fmt"
	"io/ioutil"
	"os"
	"sync"
	"time"

	"github.com/makiuchi-d/gozxing/verifhook"
)

type Trace struct {
	Tasks [][]OpSpec       `json:"tasks"`
	Sched verifhook.Config `json:"sched"`
}

type Result struct {
	Mode       string     `json:"mode"`
	Digests    [][]string `json:"digests"`
	OpYields   [][]uint64 `json:"op_yields,omitempty"` // solo
	Yields     uint64     `json:"yields"`
	Switches   int        `json:"switches"`
	LogHash    string     `json:"log_hash"`
	Log        []verifhook.Switch `json:"log,omitempty"`
	Diverged   bool       `json:"diverged"`
	StateDiff  []string   `json:"state_diff"`
	StateWords int        `json:"state_words"`
	StateVars  int        `json:"state_vars"`
	PerTask    []uint64   `json:"per_task_yields,omitempty"`
	SiteHits   [][2]uint32 `json:"site_hits,omitempty"`
	Stalled    bool       `json:"stalled"` // no task executed a yield point for stallLimit: deadlock or a stuck task
}

const stallLimit = 15 * time.Second

func isBudget(r interface{}) bool { return r == interface{}(verifhook.ErrBudget) }

var selfTestShared int

func main() {
	mode := flag.String("mode", "sim", "sim|solo|selftest")
	in := flag.String("in", "", "trace file")
	out := flag.String("out", "", "result file")
	repo := flag.String("repo", "", "scratch repo dir (for test images)")
	onlyTask := flag.Int("task", -1, "solo mode: run only this task's script (fresh process per task)")
	flag.Parse()
	findAztec(*repo)
	buildParents()
	var tr Trace
	if *mode != "selftest" {
		b, err := ioutil.ReadFile(*in)
		if err != nil {
			fmt.Fprintln(os.Stderr, err)
			os.Exit(2)
		}
		if err := json.Unmarshal(b, &tr); err != nil {
			fmt.Fprintln(os.Stderr, err)
			os.Exit(2)
		}
	}
	res := &Result{Mode: *mode}
	switch *mode {
	case "solo":
		for ti, script := range tr.Tasks {
			if *onlyTask >= 0 && ti != *onlyTask {
				res.Digests = append(res.Digests, nil)
				res.OpYields = append(res.OpYields, nil)
				continue
			}
			inst := newInstances()
			var ds []string
			var ys []uint64
			for _, op := range script {
				verifhook.CountOnly(true)
				ds = append(ds, runOp(inst, op))
				ys = append(ys, verifhook.YieldCount())
				res.Yields += verifhook.YieldCount()
				verifhook.CountOnly(false)
			}
			res.Digests = append(res.Digests, ds)
			res.OpYields = append(res.OpYields, ys)
		}
		res.SiteHits = verifhook.SiteHits()
	case "sim":
		k := len(tr.Tasks)
		snap0, words := verifhook.Snapshot()
		res.StateWords = words
		res.StateVars = verifhook.NumRegistered()
		res.Digests = make([][]string, k)
		tr.Sched.NumSites = 1 << 16
		verifhook.Setup(k, tr.Sched)
		var wg sync.WaitGroup
		for i := 0; i < k; i++ {
			wg.Add(1)
			go func(i int) {
				defer wg.Done()
				verifhook.TaskBegin(int32(i))
				inst := newInstances()
				ds := make([]string, 0, len(tr.Tasks[i]))
				for _, op := range tr.Tasks[i] {
					ds = append(ds, runOp(inst, op))
				}
				res.Digests[i] = ds
				verifhook.TaskEnd(int32(i))
			}(i)
		}
		// stall detector: under the baton exactly one task runs; if the global
		// yield counter stops moving, that task is blocked for real (a library
		// lock that is never released, a wait that is never signalled) and no
		// other task can ever run: report instead of hanging
		go func() {
			last, since := verifhook.YieldCount(), time.Now()
			for {
				time.Sleep(500 * time.Millisecond)
				if y := verifhook.YieldCount(); y != last {
					last, since = y, time.Now()
				} else if time.Since(since) > stallLimit {
					res.Stalled = true
					rep := verifhook.GetReport()
					res.Yields, res.Switches, res.Log = rep.Yields, rep.Switches, rep.Log
					b, _ := json.Marshal(res)
					ioutil.WriteFile(*out, b, 0644)
					os.Exit(0)
				}
			}
		}()
		verifhook.Start()
		verifhook.WaitDone()
		wg.Wait()
		snap1, _ := verifhook.Snapshot()
		res.StateDiff = verifhook.Diff(snap0, snap1)
		rep := verifhook.GetReport()
		res.Yields, res.Switches, res.Diverged, res.PerTask = rep.Yields, rep.Switches, rep.Diverged, rep.PerTask
		h := sha256.New()
		for _, s := range rep.Log {
			fmt.Fprintf(h, "%d,%d,%d,%d;", s.Yield, s.Site, s.From, s.To)
		}
		res.LogHash = hex.EncodeToString(h.Sum(nil)[:8])
		res.Log = rep.Log
	case "selftest":
		// two tasks write the same variable under the scheduler; the race
		// detector must report it although execution is serialised
		verifhook.Setup(2, verifhook.Config{Seed: 1, Mode: 0, MeanGap: 1, MaxSw: 100})
		var wg sync.WaitGroup
		for i := 0; i < 2; i++ {
			wg.Add(1)
			go func(i int) {
				defer wg.Done()
				verifhook.TaskBegin(int32(i))
				for j := 0; j < 50; j++ {
					selfTestShared += i + 1
					verifhook.Yield(0)
				}
				verifhook.TaskEnd(int32(i))
			}(i)
		}
		verifhook.Start()
		verifhook.WaitDone()
		wg.Wait()
		rep := verifhook.GetReport()
		res.Yields, res.Switches = rep.Yields, rep.Switches
		res.Digests = [][]string{{fmt.Sprint(selfTestShared)}}
	}
	b, _ := json.Marshal(res)
	if err := ioutil.WriteFile(*out, b, 0644); err != nil {
		fmt.Fprintln(os.Stderr, err)
		os.Exit(2)
	}
}

//go:build verif
// +build verif

package main

import (
	"crypto/sha256"
	"encoding/hex"
	"fmt"
	"image"
	"image/png"
	"os"
	"path/filepath"
	"sort"
	"strings"

	"github.com/makiuchi-d/gozxing"
	"github.com/makiuchi-d/gozxing/aztec"
	"github.com/makiuchi-d/gozxing/common"
	rs "github.com/makiuchi-d/gozxing/common/reedsolomon"
	"github.com/makiuchi-d/gozxing/datamatrix"
	multiqr "github.com/makiuchi-d/gozxing/multi/qrcode"
	"github.com/makiuchi-d/gozxing/oned"
	"github.com/makiuchi-d/gozxing/oned/rss"
	"github.com/makiuchi-d/gozxing/qrcode"
	"github.com/makiuchi-d/gozxing/qrcode/decoder"

	az "verifdriver/aztecref"
	ref "verifdriver/onedref"
)

// OpSpec is one whole-API operation of a task script. All content is derived
// from Seed by the driver's own PRNG, so a spec is self-contained.
type OpSpec struct {
	K string `json:"k"`
	S uint64 `json:"s"`
	P int    `json:"p,omitempty"`
}

type prng struct{ s uint64 }

func (r *prng) next() uint64 {
	r.s += 0x9e3779b97f4a7c15
	z := r.s
	z = (z ^ (z >> 30)) * 0xbf58476d1ce4e5b9
	z = (z ^ (z >> 27)) * 0x94d049bb133111eb
	return z ^ (z >> 31)
}

// Intn makes prng an aztecref.Chooser.
func (r *prng) Intn(n int) int { return r.intn(n) }

func (r *prng) intn(n int) int {
	if n <= 1 {
		return 0
	}
	return int(r.next() % uint64(n))
}

// instances are the private reader/writer objects of one task; they are
// created lazily and re-used by later operations of the same task.
// sharedParents are bitmaps built once, before the tasks start (see the
// "parentcrop" operation); parentCells lists where their symbols are.
var sharedParents []*gozxing.BinaryBitmap

type parentCell struct {
	kind       string
	x, y, w, h int
}

var parentCells [][]parentCell

// newMulti builds a task's own multi-format UPC/EAN reader, from no hints or
// from the application-wide hints map (whose format list the constructor reads).
func newMulti(r *prng) gozxing.Reader {
	if r.intn(2) == 0 {
		return oned.NewMultiFormatUPCEANReader(sharedHints)
	}
	return oned.NewMultiFormatUPCEANReader(nil)
}

// sharedHints is the application-wide, read-only hints map of the 1-D operations.
var sharedHints map[gozxing.DecodeHintType]interface{}

func buildParents() {
	sharedHints = map[gozxing.DecodeHintType]interface{}{
		gozxing.DecodeHintType_TRY_HARDER:                 true,
		gozxing.DecodeHintType_NEED_RESULT_POINT_CALLBACK: gozxing.ResultPointCallback(func(gozxing.ResultPoint) {}),
		// in the order a user wrote them, not ascending: a reader may search this list, it may not reorder it
		gozxing.DecodeHintType_ALLOWED_EAN_EXTENSIONS: []int{5, 0, 2},
		// formats of other families first, a duplicate last: what a configuration file yields
		gozxing.DecodeHintType_POSSIBLE_FORMATS: []gozxing.BarcodeFormat{gozxing.BarcodeFormat_QR_CODE, gozxing.BarcodeFormat_CODE_128, gozxing.BarcodeFormat_EAN_13, gozxing.BarcodeFormat_UPC_A, gozxing.BarcodeFormat_EAN_8, gozxing.BarcodeFormat_UPC_E, gozxing.BarcodeFormat_EAN_13},
	}
	for i := 0; i < 2; i++ {
		canvas, _ := gozxing.NewBitMatrix(640, 430)
		var cells []parentCell
		place := func(kind string, m *gozxing.BitMatrix, err error, x0, y0 int) {
			if err != nil || m == nil {
				return
			}
			for y := 0; y < m.GetHeight(); y++ {
				for x := 0; x < m.GetWidth(); x++ {
					if m.Get(x, y) {
						canvas.Set(x0+x, y0+y)
					}
				}
			}
			cells = append(cells, parentCell{kind, x0, y0, m.GetWidth(), m.GetHeight()})
		}
		m, err := qrcode.NewQRCodeWriter().Encode(fmt.Sprintf("PARENT %d: quadrant with a QR symbol", i), gozxing.BarcodeFormat_QR_CODE, 150, 150, nil)
		place("qr", m, err, 20, 20)
		m, err = datamatrix.NewDataMatrixWriter().Encode(fmt.Sprintf("Parent %d Data Matrix", i), gozxing.BarcodeFormat_DATA_MATRIX, 120, 120, nil)
		place("dm", m, err, 340, 30)
		m, err = oned.NewEAN13Writer().Encode(fmt.Sprintf("59012341234%d", i), gozxing.BarcodeFormat_EAN_13, 230, 80, nil)
		place("ean13", m, err, 20, 230)
		m, err = oned.NewCode128Writer().Encode(fmt.Sprintf("Parent128-%d", i), gozxing.BarcodeFormat_CODE_128, 280, 80, nil)
		place("code128", m, err, 320, 300)
		bmp, err := gozxing.NewBinaryBitmapFromImage(canvas)
		if err != nil || len(cells) == 0 {
			continue
		}
		sharedParents = append(sharedParents, bmp)
		parentCells = append(parentCells, cells)
	}
}

type instances struct {
	qrw     *qrcode.QRCodeWriter
	qrr     gozxing.Reader
	dmw     gozxing.Writer
	dmr     *datamatrix.DataMatrixReader
	w1d     map[string]gozxing.Writer
	r1d     map[string]gozxing.Reader
	multi   gozxing.Reader
	rss14   gozxing.Reader
	qrmulti interface {
		DecodeMultiple(*gozxing.BinaryBitmap, map[gozxing.DecodeHintType]interface{}) ([]*gozxing.Result, error)
	}
	az *aztec.AztecReader
}

func newInstances() *instances {
	return &instances{w1d: map[string]gozxing.Writer{}, r1d: map[string]gozxing.Reader{}}
}

func digestResult(r *gozxing.Result, err error) string {
	if err != nil {
		return fmt.Sprintf("ERR %T %v", err, err)
	}
	if r == nil {
		return "NIL"
	}
	var sb strings.Builder
	fmt.Fprintf(&sb, "OK %v %q raw=%s bits=%d pts=", r.GetBarcodeFormat(), r.GetText(), hex.EncodeToString(r.GetRawBytes()), r.GetNumBits())
	for _, p := range r.GetResultPoints() {
		if p == nil {
			sb.WriteString("nil;")
			continue
		}
		fmt.Fprintf(&sb, "(%.3f,%.3f);", p.GetX(), p.GetY())
	}
	md := r.GetResultMetadata()
	keys := make([]int, 0, len(md))
	for k := range md {
		keys = append(keys, int(k))
	}
	sort.Ints(keys)
	for _, k := range keys {
		fmt.Fprintf(&sb, " md[%d]=%v", k, md[gozxing.ResultMetadataType(k)])
	}
	return sb.String()
}

func digestMatrix(m *gozxing.BitMatrix, err error) string {
	if err != nil {
		return fmt.Sprintf("ERR %T %v", err, err)
	}
	if m == nil {
		return "NIL"
	}
	h := sha256.New()
	for y := 0; y < m.GetHeight(); y++ {
		row := make([]byte, m.GetWidth())
		for x := range row {
			if m.Get(x, y) {
				row[x] = 1
			}
		}
		h.Write(row)
	}
	return fmt.Sprintf("M %dx%d %s", m.GetWidth(), m.GetHeight(), hex.EncodeToString(h.Sum(nil)[:8]))
}

const alnum = "ABCDEFGHIJKLMNOPQRSTUVWXYZ0123456789 $%*+-./:"

func text(r *prng, n int, class int) string {
	var sb strings.Builder
	for i := 0; i < n; i++ {
		switch class {
		case 0: // digits
			sb.WriteByte(byte('0' + r.intn(10)))
		case 1: // alphanumeric
			sb.WriteByte(alnum[r.intn(len(alnum))])
		case 2: // printable ascii
			sb.WriteByte(byte(32 + r.intn(95)))
		case 3: // latin-1 / utf-8 mix
			if r.intn(4) == 0 {
				sb.WriteRune(rune(0xA1 + r.intn(0x5E)))
			} else {
				sb.WriteByte(byte(32 + r.intn(95)))
			}
		default: // kana / kanji
			if r.intn(2) == 0 {
				sb.WriteRune(rune(0x3041 + r.intn(80)))
			} else {
				sb.WriteRune(rune(0x4E9C + r.intn(40)))
			}
		}
	}
	return sb.String()
}

// readerHints adds, to a task-private hint map, the optional hints an
// application may pass to any reader (character set for byte content without
// ECI, try-harder, also-inverted, GS1). base may be nil.
func readerHints(r *prng, base map[gozxing.DecodeHintType]interface{}) map[gozxing.DecodeHintType]interface{} {
	if r.intn(2) == 0 {
		return base
	}
	h := map[gozxing.DecodeHintType]interface{}{}
	for k, v := range base {
		h[k] = v
	}
	if r.intn(2) == 0 {
		h[gozxing.DecodeHintType_CHARACTER_SET] = []string{"UTF-8", "ISO-8859-1", "Shift_JIS", "windows-1251", "ISO-8859-5", "Cp1252", "GB18030", "EUC_KR"}[r.intn(8)]
	}
	if r.intn(3) == 0 {
		h[gozxing.DecodeHintType_TRY_HARDER] = true
	}
	if r.intn(3) == 0 {
		h[gozxing.DecodeHintType_ALSO_INVERTED] = true
	}
	if r.intn(4) == 0 {
		h[gozxing.DecodeHintType_ASSUME_GS1] = true
	}
	return h
}

func digits(r *prng, n int) string { return text(r, n, 0) }

var ecLevels = []decoder.ErrorCorrectionLevel{decoder.ErrorCorrectionLevel_L, decoder.ErrorCorrectionLevel_M, decoder.ErrorCorrectionLevel_Q, decoder.ErrorCorrectionLevel_H}

var aztecFiles, rssFiles, photoFiles []string

func loadPNG(path string) (image.Image, error) {
	f, err := os.Open(path)
	if err != nil {
		return nil, err
	}
	defer f.Close()
	return png.Decode(f)
}

// runOp executes one operation on the task's private instances and returns
// its result digest. Library panics are part of the digest.
func runOp(in *instances, op OpSpec) (d string) {
	defer func() {
		if r := recover(); r != nil {
			if isBudget(r) {
				d = "ABORTED step budget exceeded"
				return
			}
			d = fmt.Sprintf("PANIC %v", r)
		}
	}()
	r := &prng{op.S}
	switch op.K {
	case "qr":
		if in.qrw == nil {
			in.qrw = qrcode.NewQRCodeWriter()
			in.qrr = qrcode.NewQRCodeReader()
		}
		class := r.intn(5)
		n := []int{3, 12, 40, 120, 400, 900}[op.P%6]
		if class == 4 && n > 120 {
			n = 120
		}
		txt := text(r, 1+r.intn(n), class)
		hints := map[gozxing.EncodeHintType]interface{}{gozxing.EncodeHintType_ERROR_CORRECTION: ecLevels[r.intn(4)]}
		switch r.intn(6) {
		case 3:
			// spellings that are not registry keys: whatever the library does
			// with them (reject, resolve an alias), it must do it the same way
			// under any interleaving and without touching shared state
			hints[gozxing.EncodeHintType_CHARACTER_SET] = []string{"utf-8", "WINDOWS-1252", "latin1", "shift-jis", "us-ascii", "Utf8", "iso-8859-15", "EUC_JP"}[r.intn(8)]
		case 4:
			// every registered character set in turn (each has its own ECI entry
			// and its own x/text encoder/decoder objects)
			all := []string{"Cp437", "ISO8859_1", "ISO8859_2", "ISO8859_3", "ISO8859_4", "ISO8859_5", "ISO8859_6", "ISO8859_7", "ISO8859_8", "ISO8859_9",
				"ISO8859_10", "ISO8859_11", "ISO8859_13", "ISO8859_14", "ISO8859_15", "ISO8859_16", "SJIS", "Cp1250", "Cp1251", "Cp1252", "Cp1256",
				"UnicodeBigUnmarked", "UTF-16BE", "UTF8", "ASCII", "Big5", "GB18030", "EUC_KR"}
			hints[gozxing.EncodeHintType_CHARACTER_SET] = all[r.intn(len(all))]
			if class > 2 {
				txt = text(r, 1+r.intn(30), r.intn(3)) // keep it representable in single-byte sets
			}
		case 1:
			hints[gozxing.EncodeHintType_CHARACTER_SET] = "UTF-8"
		case 2:
			if class == 4 {
				hints[gozxing.EncodeHintType_CHARACTER_SET] = "Shift_JIS"
			} else if class <= 2 {
				hints[gozxing.EncodeHintType_CHARACTER_SET] = "ISO-8859-1"
			}
		}
		scale := 1 + r.intn(3)
		m, err := in.qrw.Encode(txt, gozxing.BarcodeFormat_QR_CODE, 0, 0, hints)
		if err != nil {
			return "W " + digestMatrix(m, err)
		}
		size := m.GetWidth() * scale
		m, err = in.qrw.Encode(txt, gozxing.BarcodeFormat_QR_CODE, size, size, hints)
		if err != nil {
			return "W " + digestMatrix(m, err)
		}
		bmp, err := gozxing.NewBinaryBitmapFromImage(m)
		if err != nil {
			return "B " + err.Error()
		}
		var dh map[gozxing.DecodeHintType]interface{}
		if r.intn(2) == 0 {
			dh = map[gozxing.DecodeHintType]interface{}{gozxing.DecodeHintType_PURE_BARCODE: true}
		}
		res, err := in.qrr.Decode(bmp, readerHints(r, dh))
		return digestMatrix(m, nil) + " | " + digestResult(res, err)
	case "qreci":
		// QR round trip in one given registered character set (P selects it):
		// each set has its own registry entry and x/text encoder / decoder objects
		if in.qrw == nil {
			in.qrw = qrcode.NewQRCodeWriter()
			in.qrr = qrcode.NewQRCodeReader()
		}
		all := []string{"Cp437", "ISO8859_1", "ISO8859_2", "ISO8859_3", "ISO8859_4", "ISO8859_5", "ISO8859_7", "ISO8859_9",
			"ISO8859_13", "ISO8859_15", "ISO8859_16", "SJIS", "Cp1250", "Cp1251", "Cp1252", "Cp1256",
			"UnicodeBigUnmarked", "UTF-16BE", "UTF8", "ASCII", "Big5", "GB18030", "EUC_KR", "UnicodeBig", "GBK", "US-ASCII"}
		cs := all[op.P%len(all)]
		txt := text(r, 1+r.intn(40), r.intn(3))
		if cs == "UnicodeBigUnmarked" || cs == "UTF-16BE" || cs == "UnicodeBig" || cs == "UTF8" {
			txt = text(r, 1+r.intn(40), r.intn(5))
		}
		hints := map[gozxing.EncodeHintType]interface{}{gozxing.EncodeHintType_CHARACTER_SET: cs}
		m, err := in.qrw.Encode(txt, gozxing.BarcodeFormat_QR_CODE, 0, 0, hints)
		if err != nil {
			return "W " + digestMatrix(m, err)
		}
		bmp, err := gozxing.NewBinaryBitmapFromImage(m)
		if err != nil {
			return "B " + err.Error()
		}
		res, err := in.qrr.Decode(bmp, map[gozxing.DecodeHintType]interface{}{gozxing.DecodeHintType_PURE_BARCODE: true})
		return cs + " " + digestMatrix(m, nil) + " | " + digestResult(res, err)
	case "dm":
		if in.dmw == nil {
			in.dmw = datamatrix.NewDataMatrixWriter()
			in.dmr = datamatrix.NewDataMatrixReader()
		}
		n := []int{3, 10, 30, 90, 250, 600}[op.P%6]
		txt := text(r, 1+r.intn(n), r.intn(4))
		if r.intn(5) == 0 {
			// Macro 05 / 06 envelopes (their own header / trailer handling in the encoder)
			txt = "[)>\x1e0" + string(rune('5'+r.intn(2))) + "\x1d" + text(r, 1+r.intn(20), r.intn(3)) + "\x1e\x04"
		}
		scale := 1 + r.intn(3)
		m, err := in.dmw.Encode(txt, gozxing.BarcodeFormat_DATA_MATRIX, 0, 0, nil)
		if err != nil {
			return "W " + digestMatrix(m, err)
		}
		m, err = in.dmw.Encode(txt, gozxing.BarcodeFormat_DATA_MATRIX, m.GetWidth()*scale+8*scale, m.GetHeight()*scale+8*scale, nil)
		if err != nil {
			return "W " + digestMatrix(m, err)
		}
		bmp, err := gozxing.NewBinaryBitmapFromImage(m)
		if err != nil {
			return "B " + err.Error()
		}
		var dh map[gozxing.DecodeHintType]interface{}
		if r.intn(2) == 0 {
			dh = map[gozxing.DecodeHintType]interface{}{gozxing.DecodeHintType_PURE_BARCODE: true}
		}
		res, err := in.dmr.Decode(bmp, readerHints(r, dh))
		return digestMatrix(m, nil) + " | " + digestResult(res, err)
	case "ean13", "ean8", "upca", "upce", "code39", "code93", "code128", "itf", "codabar":
		w, rd, format, content := oneD(in, op.K, r)
		width := 0
		if r.intn(2) == 0 {
			width = 200 + r.intn(300)
		}
		m, err := w.Encode(content, format, width, 20+r.intn(30), nil)
		if err != nil {
			return "W " + digestMatrix(m, err)
		}
		bmp, err := gozxing.NewBinaryBitmapFromImage(m)
		if err != nil {
			return "B " + err.Error()
		}
		var dh map[gozxing.DecodeHintType]interface{}
		if r.intn(3) == 0 {
			dh = map[gozxing.DecodeHintType]interface{}{gozxing.DecodeHintType_TRY_HARDER: true}
		}
		if r.intn(4) == 0 {
			// one application-wide hints map, built before the tasks start and only
			// ever read by the application: the library must not write to it
			dh = sharedHints
			if r.intn(2) == 0 {
				// the picture is upside down: the forward attempt on each row fails
				// and the reversed-row attempt reads it
				m.Rotate180()
				if b2, e2 := gozxing.NewBinaryBitmapFromImage(m); e2 == nil {
					bmp = b2
				}
			}
		}
		res, err := rd.Decode(bmp, dh)
		out := digestMatrix(m, nil) + " | " + digestResult(res, err)
		if op.K == "ean13" || op.K == "upca" || op.K == "ean8" || op.K == "upce" {
			if in.multi == nil {
				in.multi = newMulti(r)
			}
			res, err = in.multi.Decode(bmp, dh)
			out += " | " + digestResult(res, err)
		}
		if op.P%3 == 0 {
			if in.rss14 == nil {
				in.rss14 = rss.NewRSS14Reader()
			}
			res, err = in.rss14.Decode(bmp, dh)
			out += " | rss14 " + digestResult(res, err)
		}
		return out
	case "qrmulti":
		if in.qrw == nil {
			in.qrw = qrcode.NewQRCodeWriter()
			in.qrr = qrcode.NewQRCodeReader()
		}
		if in.qrmulti == nil {
			in.qrmulti = multiqr.NewQRCodeMultiReader()
		}
		txt := text(r, 1+r.intn(30), r.intn(3))
		m, err := in.qrw.Encode(txt, gozxing.BarcodeFormat_QR_CODE, 90+r.intn(60), 90+r.intn(60), nil)
		if err != nil {
			return "W " + digestMatrix(m, err)
		}
		if r.intn(2) == 0 {
			// two (or three) symbols in one image: finder patterns of different
			// symbols form extra candidates that fail to decode and are dropped;
			// sometimes one symbol is damaged beyond repair
			n := 2 + r.intn(2)
			var ms []*gozxing.BitMatrix
			w, h := 0, 0
			for i := 0; i < n; i++ {
				mi, e := in.qrw.Encode(text(r, 1+r.intn(30), r.intn(3)), gozxing.BarcodeFormat_QR_CODE, 80+r.intn(40), 80+r.intn(40), nil)
				if e != nil {
					return "W " + digestMatrix(mi, e)
				}
				ms = append(ms, mi)
				w += mi.GetWidth() + 10
				if mi.GetHeight() > h {
					h = mi.GetHeight()
				}
			}
			big, _ := gozxing.NewBitMatrix(w+10, h+20)
			x0 := 10
			for i, mi := range ms {
				for y := 0; y < mi.GetHeight(); y++ {
					for x := 0; x < mi.GetWidth(); x++ {
						if mi.Get(x, y) {
							big.Set(x0+x, 10+y)
						}
					}
				}
				if i == 0 && r.intn(3) == 0 {
					big.SetRegion(x0+mi.GetWidth()/3, 10+mi.GetHeight()/3, mi.GetWidth()/3, mi.GetHeight()/3) // a blot
				}
				x0 += mi.GetWidth() + 10
			}
			m = big
		}
		bmp, _ := gozxing.NewBinaryBitmapFromImage(m)
		rs, err := in.qrmulti.DecodeMultiple(bmp, nil)
		out := fmt.Sprintf("n=%d", len(rs))
		if err != nil {
			out += fmt.Sprintf(" ERR %T %v", err, err)
		}
		for _, x := range rs {
			out += " | " + digestResult(x, nil)
		}
		return out
	case "parentcrop":
		// Two pictures (sharedParents) are decoded into bitmaps once, before any
		// task starts; every task cuts its own region out of one of them (and
		// sometimes turns it) and reads that with its own reader. The tasks
		// only derive from the shared parent, they never ask it for rows or a
		// matrix: what a derived bitmap shares with its parent and its siblings
		// inside the library must be read-only.
		if len(sharedParents) == 0 {
			return "no parents"
		}
		pi := op.P % len(sharedParents)
		parent := sharedParents[pi]
		cell := parentCells[pi][r.intn(len(parentCells[pi]))]
		l, t := cell.x-r.intn(12), cell.y-r.intn(12)
		w, h := cell.w+12+r.intn(12), cell.h+12+r.intn(12)
		if l < 0 {
			l = 0
		}
		if t < 0 {
			t = 0
		}
		if l+w > parent.GetWidth() {
			w = parent.GetWidth() - l
		}
		if t+h > parent.GetHeight() {
			h = parent.GetHeight() - t
		}
		bmp, err := parent.Crop(l, t, w, h)
		if err != nil {
			return "C " + err.Error()
		}
		out := cell.kind
		if r.intn(4) == 0 {
			if rb, e := bmp.RotateCounterClockwise(); e == nil {
				bmp = rb
				out += " rot"
			}
		}
		// rows of the derived bitmap (what the 1-D readers consume)
		for i := 0; i < 3; i++ {
			y := r.intn(bmp.GetHeight())
			row, e := bmp.GetBlackRow(y, nil)
			if e != nil {
				out += fmt.Sprintf(" row%d:ERR", y)
			} else {
				hsum := sha256.Sum256([]byte(row.String()))
				out += fmt.Sprintf(" row%d:%x", y, hsum[:6])
			}
		}
		var rd gozxing.Reader
		switch cell.kind {
		case "qr":
			if in.qrr == nil {
				in.qrw = qrcode.NewQRCodeWriter()
				in.qrr = qrcode.NewQRCodeReader()
			}
			rd = in.qrr
		case "dm":
			if in.dmr == nil {
				in.dmw = datamatrix.NewDataMatrixWriter()
				in.dmr = datamatrix.NewDataMatrixReader()
			}
			rd = in.dmr
		case "ean13":
			if in.multi == nil {
				in.multi = newMulti(r)
			}
			rd = in.multi
		default:
			if in.r1d["code128"] == nil {
				in.w1d["code128"], in.r1d["code128"] = oned.NewCode128Writer(), oned.NewCode128Reader()
			}
			rd = in.r1d["code128"]
		}
		res, err := rd.Decode(bmp, readerHints(r, nil))
		return out + " | " + digestResult(res, err)
	case "aztec":
		if len(aztecFiles) == 0 {
			return "no aztec files"
		}
		if in.az == nil {
			in.az = aztec.NewAztecReader()
		}
		img, err := loadPNG(aztecFiles[op.P%len(aztecFiles)])
		if err != nil {
			return "load " + err.Error()
		}
		bmp, _ := gozxing.NewBinaryBitmapFromImage(img)
		res, err := in.az.Decode(bmp, readerHints(r, nil))
		return digestResult(res, err)
	case "rssimg", "photo":
		// sample photographs shipped with the repository (RSS-14 symbols, which
		// no writer can produce, and real-world Data Matrix images): reader
		// state such as RSS pair lists must stay per instance
		files := rssFiles
		if op.K == "photo" {
			files = photoFiles
		}
		if len(files) == 0 {
			return "no files"
		}
		f := files[op.P%len(files)]
		img, err := loadPNG(f)
		if err != nil {
			return "load " + err.Error()
		}
		bmp, _ := gozxing.NewBinaryBitmapFromImage(img)
		var res *gozxing.Result
		if op.K == "rssimg" {
			if in.rss14 == nil {
				in.rss14 = rss.NewRSS14Reader()
			}
			var pts int
			hints := map[gozxing.DecodeHintType]interface{}{}
			if r.intn(2) == 0 {
				hints[gozxing.DecodeHintType_TRY_HARDER] = true
			}
			if r.intn(2) == 0 {
				hints[gozxing.DecodeHintType_NEED_RESULT_POINT_CALLBACK] = gozxing.ResultPointCallback(func(gozxing.ResultPoint) { pts++ })
			}
			res, err = in.rss14.Decode(bmp, hints)
			return filepath.Base(f) + fmt.Sprintf(" pts=%d ", pts) + digestResult(res, err)
		}
		if in.dmr == nil {
			in.dmw = datamatrix.NewDataMatrixWriter()
			in.dmr = datamatrix.NewDataMatrixReader()
		}
		res, err = in.dmr.Decode(bmp, nil)
		return filepath.Base(f) + " " + digestResult(res, err)
	case "faint":
		// a 1-D symbol printed with little contrast (grey bars on a grey
		// background): usually "not found" - and it must be the same answer
		// whatever other goroutines are scanning at the time
		kinds := []string{"ean13", "code128", "code39", "itf", "upca"}
		k := kinds[r.intn(len(kinds))]
		w, rd, format, content := oneD(in, k, r)
		m, err := w.Encode(content, format, 0, 1, nil)
		if err != nil {
			return "W " + digestMatrix(m, err)
		}
		bg := 90 + r.intn(120)
		fg := bg - (6 + r.intn(40))
		if r.intn(4) == 0 {
			fg = r.intn(60)
		}
		scale := 1 + r.intn(3)
		img := image.NewGray(image.Rect(0, 0, m.GetWidth()*scale, 24))
		for y := 0; y < 24; y++ {
			for x := 0; x < m.GetWidth()*scale; x++ {
				v := bg
				if m.Get(x/scale, 0) {
					v = fg
				}
				img.Pix[y*img.Stride+x] = byte(v)
			}
		}
		bmp, _ := gozxing.NewBinaryBitmapFromImage(img)
		res, err := rd.Decode(bmp, nil)
		return fmt.Sprintf("bg=%d fg=%d ", bg, fg) + digestResult(res, err)
	case "eanext":
		// a UPC/EAN symbol with a 2- or 5-digit add-on (the add-on decoder and its scratch buffers)
		sym := []string{"ean13", "upca", "ean8"}[r.intn(3)]
		_, rd, _, content := oneD(in, sym, r)
		body := make([]int, len(content))
		for i := range content {
			body[i] = int(content[i] - '0')
		}
		full := append(body, ref.Mod10(body))
		var row ref.Row
		switch sym {
		case "ean13":
			row = ref.EAN13(full)
		case "upca":
			row = ref.UPCA(full)
		default:
			row = ref.EAN8(full)
		}
		n := 2 + 3*r.intn(2)
		ad := make([]int, n)
		for i := range ad {
			ad[i] = r.intn(10)
		}
		if n == 5 && r.intn(3) == 0 {
			// the 5-digit values with a special meaning (price table entries)
			sp := [][]int{{9, 0, 0, 0, 0}, {9, 9, 9, 9, 1}, {9, 9, 9, 9, 0}, {5, 1, 2, 9, 5}, {0, 0, 9, 9, 9}, {9, 8, 0, 0, 0}}
			ad = sp[r.intn(len(sp))]
		}
		par := ref.EAN2Parity(ad[0]*10 + ad[1])
		if n == 5 {
			par = ref.EAN5Parity(ad)
		}
		if r.intn(5) == 0 {
			par ^= 1 // wrong parity: must be dropped, deterministically
		}
		for i := 0; i < 9; i++ {
			row = append(row, false)
		}
		row = append(row, ref.Addon(ad, par)...)
		scale := 1 + r.intn(3)
		bm, _ := gozxing.NewBitMatrix((len(row)+40)*scale, 30)
		for i, v := range row {
			if v {
				bm.SetRegion((20+i)*scale, 0, scale, 30)
			}
		}
		bmp, _ := gozxing.NewBinaryBitmapFromImage(bm)
		res, err := rd.Decode(bmp, nil)
		out := digestResult(res, err)
		if in.multi == nil {
			in.multi = newMulti(r)
		}
		res, err = in.multi.Decode(bmp, nil)
		return out + " | " + digestResult(res, err)
	case "qrdmg", "dmdmg":
		// write, damage a few modules (error correction has to work), read
		var m *gozxing.BitMatrix
		var err error
		txt := text(r, 1+r.intn(60), r.intn(3))
		if op.K == "qrdmg" {
			if in.qrw == nil {
				in.qrw = qrcode.NewQRCodeWriter()
				in.qrr = qrcode.NewQRCodeReader()
			}
			hints := map[gozxing.EncodeHintType]interface{}{gozxing.EncodeHintType_ERROR_CORRECTION: ecLevels[2+r.intn(2)], gozxing.EncodeHintType_MARGIN: 0}
			m, err = in.qrw.Encode(txt, gozxing.BarcodeFormat_QR_CODE, 0, 0, hints)
		} else {
			if in.dmw == nil {
				in.dmw = datamatrix.NewDataMatrixWriter()
				in.dmr = datamatrix.NewDataMatrixReader()
			}
			m, err = in.dmw.Encode(txt, gozxing.BarcodeFormat_DATA_MATRIX, 0, 0, nil)
		}
		if err != nil {
			return "W " + digestMatrix(m, err)
		}
		w, h := m.GetWidth(), m.GetHeight()
		for i, n := 0, 1+r.intn(3); i < n; i++ {
			// interior modules, away from the finder corners
			m.Flip(w/2+r.intn(w/3), h/2+r.intn(h/3)-h/6)
		}
		scale := 2 + r.intn(2)
		big, _ := gozxing.NewBitMatrix((w+8)*scale, (h+8)*scale)
		for y := 0; y < h; y++ {
			for x := 0; x < w; x++ {
				if m.Get(x, y) {
					big.SetRegion((x+4)*scale, (y+4)*scale, scale, scale)
				}
			}
		}
		bmp, _ := gozxing.NewBinaryBitmapFromImage(big)
		dh := map[gozxing.DecodeHintType]interface{}{gozxing.DecodeHintType_PURE_BARCODE: true}
		var res *gozxing.Result
		if op.K == "qrdmg" {
			res, err = in.qrr.Decode(bmp, dh)
		} else {
			res, err = in.dmr.Decode(bmp, dh)
		}
		return digestMatrix(m, nil) + " | " + digestResult(res, err)
	case "aztecgen":
		// reference-made Aztec symbol with codeword damage through the real reader
		if in.az == nil {
			in.az = aztec.NewAztecReader()
		}
		layers := 1 + r.intn(6)
		compact := layers <= 4 && r.intn(2) == 0
		n := 1 + r.intn(4*layers*layers+6)
		txt := []byte(text(r, n, r.intn(4)))
		bits := az.HighLevel(txt, r, func(string) {})
		words := az.Stuff(bits, az.WordSize(layers), func(string) {})
		s := az.Build(words, layers, compact)
		if s == nil {
			return "does not fit"
		}
		t := (len(s.Words) - s.DataWords) / 2
		for i, k := 0, r.intn(t+1); i < k; i++ {
			wd := r.intn(len(s.Words))
			for _, p := range s.WordMods[wd][:1+r.intn(len(s.WordMods[wd]))] {
				s.M[p.Y][p.X] = !s.M[p.Y][p.X]
			}
		}
		scale := 3 + r.intn(2)
		bm, _ := gozxing.NewBitMatrix((s.Size+6)*scale, (s.Size+6)*scale)
		for y := 0; y < s.Size; y++ {
			for x := 0; x < s.Size; x++ {
				if s.M[y][x] {
					bm.SetRegion((x+3)*scale, (y+3)*scale, scale, scale)
				}
			}
		}
		bmp, _ := gozxing.NewBinaryBitmapFromImage(bm)
		res, err := in.az.Decode(bmp, nil)
		return digestResult(res, err)
	case "rs":
		fields := []*rs.GenericGF{rs.GenericGF_QR_CODE_FIELD_256, rs.GenericGF_DATA_MATRIX_FIELD_256, rs.GenericGF_AZTEC_PARAM, rs.GenericGF_AZTEC_DATA_6, rs.GenericGF_AZTEC_DATA_10, rs.GenericGF_AZTEC_DATA_12}
		f := fields[op.P%len(fields)]
		q := f.GetSize()
		n := 3 + r.intn(min(q-4, 60))
		ec := 2 + r.intn(min(n-2, 20))
		word := make([]int, n)
		for i := 0; i < n-ec; i++ {
			word[i] = r.intn(q)
		}
		enc := rs.NewReedSolomonEncoder(f)
		if err := enc.Encode(word, ec); err != nil {
			return "ERR " + err.Error()
		}
		// a second, different parity count on the same encoder (generator cache)
		w2 := make([]int, n)
		copy(w2, word[:n-ec])
		enc.Encode(w2, 1+r.intn(ec))
		for i := 0; i < ec/2; i++ {
			word[r.intn(n)] ^= 1 + r.intn(q-1)
		}
		err := rs.NewReedSolomonDecoder(f).Decode(word, ec)
		return fmt.Sprintf("%v %v %v", word, w2, err)
	case "bin":
		w, h := 20+r.intn(80), 20+r.intn(80)
		img := image.NewGray(image.Rect(0, 0, w, h))
		for i := range img.Pix {
			img.Pix[i] = byte(r.intn(256))
			if r.intn(3) > 0 {
				img.Pix[i] = byte(255 * r.intn(2))
			}
		}
		src := gozxing.NewLuminanceSourceFromImage(img)
		m1, e1 := gozxing.NewHybridBinarizer(src).GetBlackMatrix()
		g := gozxing.NewGlobalHistgramBinarizer(src)
		m2, e2 := g.GetBlackMatrix()
		row, e3 := g.GetBlackRow(r.intn(h), nil)
		rd := ""
		if row != nil {
			rd = row.String()
		}
		return digestMatrix(m1, e1) + " | " + digestMatrix(m2, e2) + " | " + rd + fmt.Sprint(e3)
	case "eci":
		names := []string{"UTF-8", "Shift_JIS", "ISO-8859-1", "ISO8859_7", "GB18030", "Big5", "EUC-KR", "Cp1252", "nope",
			"utf-8", "WINDOWS-1252", "latin1", "shift-jis", "us-ascii", "Utf8", "iso-8859-15", "EUC_JP", "windows-1250", "KOI8-R"}
		nm := names[r.intn(len(names))]
		e, ok := common.GetCharacterSetECIByName(nm)
		out := fmt.Sprint(ok)
		if ok {
			out += fmt.Sprintf(" %d %s", e.GetValue(), e.Name())
			e2, ok2 := common.GetCharacterSetECI(e.GetCharset())
			out += fmt.Sprint(ok2, e2 == e)
		}
		v := r.intn(40)
		e3, err := common.GetCharacterSetECIByValue(v)
		if e3 != nil {
			out += " " + e3.Name()
		}
		out += fmt.Sprint(err)
		b := []byte(text(r, 1+r.intn(40), 3+r.intn(2)))
		enc, err := common.StringUtils_guessEncoding(b, nil)
		return out + " " + enc + fmt.Sprint(err)
	}
	return "unknown op " + op.K
}

func min(a, b int) int {
	if a < b {
		return a
	}
	return b
}

func oneD(in *instances, k string, r *prng) (gozxing.Writer, gozxing.Reader, gozxing.BarcodeFormat, string) {
	if in.w1d[k] == nil {
		switch k {
		case "ean13":
			in.w1d[k], in.r1d[k] = oned.NewEAN13Writer(), oned.NewEAN13Reader()
		case "ean8":
			in.w1d[k], in.r1d[k] = oned.NewEAN8Writer(), oned.NewEAN8Reader()
		case "upca":
			in.w1d[k], in.r1d[k] = oned.NewUPCAWriter(), oned.NewUPCAReader()
		case "upce":
			in.w1d[k], in.r1d[k] = oned.NewUPCEWriter(), oned.NewUPCEReader()
		case "code39":
			in.w1d[k], in.r1d[k] = oned.NewCode39Writer(), oned.NewCode39Reader()
		case "code93":
			in.w1d[k], in.r1d[k] = oned.NewCode93Writer(), oned.NewCode93Reader()
		case "code128":
			in.w1d[k], in.r1d[k] = oned.NewCode128Writer(), oned.NewCode128Reader()
		case "itf":
			in.w1d[k], in.r1d[k] = oned.NewITFWriter(), oned.NewITFReader()
		case "codabar":
			in.w1d[k], in.r1d[k] = oned.NewCodaBarWriter(), oned.NewCodaBarReader()
		}
	}
	var f gozxing.BarcodeFormat
	var c string
	switch k {
	case "ean13":
		f, c = gozxing.BarcodeFormat_EAN_13, digits(r, 12)
	case "ean8":
		f, c = gozxing.BarcodeFormat_EAN_8, digits(r, 7)
	case "upca":
		f, c = gozxing.BarcodeFormat_UPC_A, digits(r, 11)
	case "upce":
		f, c = gozxing.BarcodeFormat_UPC_E, fmt.Sprint(r.intn(2))+digits(r, 6)
	case "code39":
		f, c = gozxing.BarcodeFormat_CODE_39, text(r, 1+r.intn(20), 1)
		c = strings.Map(func(x rune) rune {
			if x == ':' || x == '*' {
				return 'A'
			}
			return x
		}, c)
	case "code93":
		f, c = gozxing.BarcodeFormat_CODE_93, text(r, 1+r.intn(20), 2)
	case "code128":
		f, c = gozxing.BarcodeFormat_CODE_128, text(r, 1+r.intn(30), r.intn(3))
	case "itf":
		n := 2 * (3 + r.intn(5))
		if r.intn(3) == 0 {
			n = 2 * (8 + r.intn(14)) // longer than the largest default length (14): allowed as well
		}
		f, c = gozxing.BarcodeFormat_ITF, digits(r, n)
	case "codabar":
		f, c = gozxing.BarcodeFormat_CODABAR, "A"+digits(r, 2+r.intn(12))+"B"
	}
	return in.w1d[k], in.r1d[k], f, c
}

func findAztec(repo string) {
	m, _ := filepath.Glob(filepath.Join(repo, "aztec/testdata/aztec-1/*.png"))
	sort.Strings(m)
	aztecFiles = m
	rssFiles, _ = filepath.Glob(filepath.Join(repo, "oned/rss/testdata/*.png"))
	sort.Strings(rssFiles)
	photoFiles, _ = filepath.Glob(filepath.Join(repo, "datamatrix/testdata/*.png"))
	sort.Strings(photoFiles)
}

ENGINES = [
 {"name": "histsim", "path": "histsim/", "serves_properties": ["C16", "C17"],
  "kind_free_text": "seeded operation histories over populations of aliasable mutable objects, compared with naive reference models after every step; ddmin-minimised replayable traces; no scheduler / fault injector (none applies)"},
]
NOTES = "Technique family: deterministic simulation with fault injection. See DESIGN.md section 0 for the per-property verdicts; 13 properties are pure functions of their input and are listed as not applicable rather than dressed up."

chk("C16", "histsim", "exploration",
    "Seeded histories (<=40 operations from the whole exported BitMatrix/BitArray API, objects passed to each other) interpreted against naive [][]bool/[]bool models; the complete population is compared after every step; all widths 1..130 x heights 1..8 and sizes 0..200 are swept. A sample of histories, exhaustive only over dimensions: evidence, not proof.",
    "Trusted: the naive models (a few lines each) and the rule that arguments are in range as the model defines it. No schedule or fault exists for these objects; this is the workload/oracle/replay half of the technique only.",
    "seeded operation-history simulation vs naive reference model, ddmin replay", "DESIGN.md section 6, section 7 C16")

PENDING.update({
 "C04": "claimed by the design (chansim) but its check is not built yet at this commit",
 "C05": "claimed by the design (chansim) but its check is not built yet at this commit",
 "C10": "claimed by the design (chansim) but its check is not built yet at this commit",
 "C11": "claimed by the design (chansim) but its check is not built yet at this commit",
 "C17": "claimed by the design (histsim) but its check is not built yet at this commit",
 "C18": "claimed by the design (schedsim) but its check is not built yet at this commit",
})

ENGINES = [
 {"name": "schedsim", "path": "schedsim/", "serves_properties": ["C18"],
  "kind_free_text": "deterministic scheduler simulation: real caller goroutines of an AST-instrumented scratch copy of the library, serialised by a futex baton that is invisible to the race detector; a seeded scheduler (gap / site-targeted / PCT) decides every context switch; replay = stored switch log; ddmin over operations and switches"},
 {"name": "chansim", "path": "chansim/", "serves_properties": ["C04", "C05", "C10", "C11"],
  "kind_free_text": "sender -> simulated faulty medium -> real receiver; seeded and enumerated fault plans within the budget the property promises to tolerate; independent reference models (GF/RS, symbol layouts, check digits) as oracles; fault-free control and fault-injecting configuration reported separately"},
 {"name": "histsim", "path": "histsim/", "serves_properties": ["C16", "C17"],
  "kind_free_text": "seeded operation histories over populations of aliasable mutable objects, compared with naive reference models after every step; ddmin-minimised replayable traces; no scheduler / fault injector (none applies)"},
]
NOTES = "Technique family: deterministic simulation with fault injection. See DESIGN.md section 0 for the per-property verdicts; 13 properties are pure functions of their input and are listed as not applicable rather than dressed up."

chk("C16", "histsim", "exploration",
    "Seeded histories (<=40 operations from the whole exported BitMatrix/BitArray API, objects passed to each other) interpreted against naive [][]bool/[]bool models; the complete population is compared after every step; all widths 1..130 x heights 1..8 and sizes 0..200 are swept. A sample of histories, exhaustive only over dimensions: evidence, not proof.",
    "Trusted: the naive models (a few lines each) and the rule that arguments are in range as the model defines it. No schedule or fault exists for these objects; this is the workload/oracle/replay half of the technique only.",
    "seeded operation-history simulation vs naive reference model, ddmin replay", "DESIGN.md section 6, section 7 C16")

chk("C04", "chansim", "fault_enumeration",
    "Real RS encoder -> simulated codeword channel -> real RS decoder in all six fields. Exhaustive: every field product/inverse/log against shift-and-reduce arithmetic; every single symbol error (all positions x all magnitudes for the 256-element fields, magnitude sample for GF(1024)/GF(4096), position sample only where the per-job budget is exceeded - counted in the evidence) on every block shape QR, Data Matrix and Aztec use; all double-error position pairs for codes up to length 40. Seeded: weight 1..t error sets incl. exactly t, bursts, both ends. Beyond-budget error sets are never injected.",
    "Trusted: the harness's table-free GF(2^m) arithmetic and long-division encoder (checked at run time for primitivity and against the slow multiplication). The exhaustive field comparison is differential enumeration rather than simulation and is labelled so in the evidence.",
    "fault enumeration on a simulated codeword channel (real encoder/decoder, reference GF model)", "DESIGN.md section 5, section 7 C04")

chk("C18", "schedsim", "exploration",
    "K caller goroutines (2..64) with private instances run whole-API scripts over every symbology on an instrumented copy of /repo's working tree; one seed fixes every context switch (1443 yield sites). Oracles: (a) the Go race detector, which does not see the scheduler and therefore judges all cross-task conflicting accesses the library does not order; (b) every call's result equals the result of the same script run alone; (c) while the library has no synchronisation, everything reachable from its 121 package-level variables is unchanged by the concurrent phase. Sampled schedules: evidence, not proof.",
    "Trusted: Go's race detector; linux/amd64 raw futex hand-over (self-tested on every invocation: two serialised conflicting writes must be reported, else exit 2); go/ast rewriter (a file it cannot parse or a copy that does not compile is exit 2). Races only between two fmt error-formatting paths can be hidden by sync.Pool edges (DESIGN.md 4.5).",
    "deterministic scheduler simulation (seeded interleavings of real goroutines) + race detector + solo-equality + shared-state immutability", "DESIGN.md section 4, section 7 C18")

chk("C05", "chansim", "fault_enumeration",
    "Library encoder (primary) or reference sender -> module matrix -> faults placed through an independent layout model (QR zig-zag/mask/interleave from first principles, Data Matrix Annex F placement) -> real decoder. A single-codeword fault is enumerated at every codeword of every block for all 160 QR (version, level) pairs and all 30 Data Matrix sizes; seeded plans go up to exactly floor(ec/2) codewords in every block plus 3 flips in each of the four format/version copies at once. Oracle: no error, sent text, the undamaged symbol's raw data codewords and EC level.",
    "Trusted: the harness layout models; they are validated on every run (each library-made symbol must show zero reference syndromes through the harness layout, and reference-made symbols must decode). A control failing outside the RS/BCH layer is skipped and counted, never reported.",
    "fault enumeration on a simulated print-and-scan medium (module flips at placed codeword positions within the ECC budget)", "DESIGN.md section 5, section 7 C05")

chk("C10", "chansim", "fault_enumeration",
    "Writer side (fault-free): all 2*10^6 UPC-E bodies and 10^6 (quick) / all 10^7 (thorough) EAN-8 bodies through the real writers, the check digit read back off the modules by the reference model must equal the standard's (UPC-E: on the expanded number); wrong supplied check digits must be refused; Code 128 / Code 93 check characters recomputed over the writer's own symbol values. Reader side (fault-injecting): reference-constructed symbols with every single digit / symbol-character substitution, and EAN-2/EAN-5 add-ons under every parity pattern; the reference model decides per faulted symbol whether an error is mandatory. All 2*10^6 UPC-E symbols are also fed to the real reader (expansion decided black-box).",
    "Trusted: the reference check-digit arithmetic and L/G/R, parity and frozen Code 128 / Code 93 tables (structurally validated at start-up). A valid symbol that is simply not found is C03's matter and only counted.",
    "fault enumeration on a simulated 1-D bar/space medium (single substitution faults; reference check-digit model as oracle)", "DESIGN.md section 5, section 7 C10")

chk("C17", "histsim", "exploration",
    "Seeded histories over a population of luminance views (five Go image kinds, RGB ints, planar YUV with offsets and horizontal reversal): crop / invert / rotate chains up to 9 deep with in-range, beyond-view, negative-origin and outside-data rectangles; rows read into nil / short / exact / long / previously returned buffers, returned buffers scribbled on; both binarisers incl. cached matrices, reused row arrays, Crop and Rotate of bitmaps. After every step every live view is compared pixel-wise with a naive window-on-array model; bilevel images of all sizes 1..48 x 1..48 and 153..200 are enumerated for the binarisers (black == luminance 0, or NotFound).",
    "Trusted: the naive window model, the rule for which crops are valid, and the bilevel rule derived from the property statement. Colour-to-luminance is modelled only where the result is unambiguous (opaque gray, transparent, RGB ints). No schedule or fault exists for these objects; this is the workload/oracle/replay half of the technique only.",
    "seeded operation-history simulation vs naive reference model, ddmin replay", "DESIGN.md section 6, section 7 C17")

chk("C11", "chansim", "exploration",
    "Stub sender (harness reference Aztec encoder: five code tables, latches, P/S and U/S shifts, punctuation pairs, both binary-shift forms with seeded free choices, bit stuffing, RS in the field of the layer count, mode message, bull's-eye, orientation marks, reference grid, spiral) -> module matrix -> <= floor(check words/2) damaged codewords -> (i) real aztec/decoder on the matrix, (ii) rendering at 2..5 px/module, 0..3 quarter turns, quiet zone -> real AztecReader (locator, sampler, decoder). All 36 sizes in every batch, payload tiny / random / filled to capacity; single-codeword sweeps per size. Oracle: decoded text == sent text.",
    "Trusted: the reference encoder (its layout, field and word order were validated against third-party symbols; every symbol it makes must decode through the real decoder, which the control configuration checks for all 36 sizes on every run). Location is heuristic: the one pose class where clean conforming symbols are sometimes not found (compact symbols at 2 px/module) is a listed known finding; everything else is reported.",
    "simulated print-and-scan channel with a reference sender, codeword fault injection within the RS budget, real locator/decoder", "DESIGN.md section 5, section 7 C11")

PENDING.update({
})
